INIT Init
NEXT Next
CONSTANTS
 G = 1
 Scale = 0
INVARIANT C01_ProductIsFormula
CHECK_DEADLOCK FALSE
