INIT Init
NEXT Next
CONSTANTS
 Len0 = 4
 MaxDepth = 2
 TrackShiftLeft = TRUE
 TwoParts = FALSE
INVARIANT C13_TrackFollows
CHECK_DEADLOCK FALSE
