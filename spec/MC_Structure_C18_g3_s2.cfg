INIT Init
NEXT Next
CONSTANTS
 G = 3
 Scale = 2
INVARIANT C18_CaseInv
CHECK_DEADLOCK FALSE
