--------------------------- MODULE Trace_Session ---------------------------
(* Implementation traces of validation histories (C06).  One trace = one fresh
   interpreter state (a forked child that has imported the kits and validated
   nothing) in which a sequence of classes is asked about records.  The trace
   specification carries the pattern cache of Session.tla as its state and
   checks each answer against Typing of the class's OWN declared structure,
   against the answer a fresh process gave, and the cache slot the call left. *)
EXTENDS Structure, TraceBase

VARIABLES l, cache     \* cache: set of class names that hold a compiled pattern of their own
vars == <<l, cache>>

Pub(r) == <<r.valid, r.up, r.down, r.tgt, IF "tgtq" \in DOMAIN r THEN r.tgtq ELSE << >> >>     \* tgtq: the feature table of the reported target
\* the record is a plain SeqRecord without topology annotation (circular by default): no target extraction for that container
Plain(e) == "plain" \in DOMAIN e /\ e.plain
ValidateFails(e, ch) ==
  LET c == e.cls  w == e.seq  r == e.res
      t == Typing(c.toks, c.enz, c.role, w)
  IN Chk("C06:SameWrapperSameAnswer", r.again)        \* is_valid() asked again on the same wrapper, after the other queries
     \cup Chk("C06:SameAsFresh", Pub(r) = Pub(e.fresh) /\ r.exc = e.fresh.exc)
     \cup (IF e.circ /\ IsNucWord(w) /\ r.exc = ""
           THEN Chk("C06:VerdictIndependent", r.valid = t.ok /\ (t.ok /\ r.valid => r.up = t.up /\ r.down = t.down /\ (Plain(e) \/ r.tgt = t.tgt)))
           ELSE {})
     \* the slot of the asked class now holds its own structure; no other slot changed
     \* if the class object holds a compiled pattern of its own, it is the pattern of its own structure, and no
     \* class that was not asked acquired one (an implementation that caches elsewhere, or not at all, is fine)
     \cup Chk("C06:CacheBelongsToClass", e.cached = << >> \/ e.cached = c.toks)
     \cup Chk("C06:CacheOnlyOwnSlot", SeqToSet(e.slots) \subseteq ch \cup {c.name})

Init == l = 1 /\ cache = {}
Next == /\ l <= Len(Log)
        /\ LET e == Log[l]
               ch == IF e.n = 1 THEN {} ELSE cache       \* a new trace starts from fresh class state
           IN /\ Report(l, IF e.ev = "Validate" THEN ValidateFails(e, ch) ELSE {"X:UnknownEvent"})
              /\ cache' = ch \cup {e.cls.name}
        /\ l' = l + 1
=============================================================================
