----------------------------- MODULE AssemblyDNA -----------------------------
(* The assembly at the level of DNA words: the overhang graph of decomposed inputs, the
   outcome it determines (the word-level counterpart of Assembly!Expected) and the
   documented closed form of the product.  dm / dv are the canonic decompositions
   (Restriction!DecompModule / DecompVector) of the modules and of the vector.       *)
EXTENDS Structure

Eq(a, b) == UpperW(a) = UpperW(b)
Count(s, x) == Cardinality({i \in 1..Len(s) : s[i] = x})
BagEq(A, B) == Len(A) = Len(B) /\ \A i \in 1..Len(A) : Count(A, A[i]) = Count(B, A[i])
Positions(f) == UNION {{f.parts[i].idx[j] : j \in 1..Len(f.parts[i].idx)} : i \in 1..Len(f.parts)}

\* ---- the overhang graph and what must come out (Assembly.tla, on words) ------------------
RECURSIVE WalkW(_, _, _, _, _)
WalkW(ms, vs, o, used, acc) ==
  IF Eq(o, vs) THEN <<"ok", acc>>
  ELSE LET c == {i \in 1..Len(ms) : Eq(ms[i].up, o) /\ i \notin used} IN
       IF c # {} THEN LET i == Min(c) IN WalkW(ms, vs, ms[i].down, used \cup {i}, Append(acc, i))
       ELSE <<"missing", o>>
Graph(dm, dv) ==
  LET n  == Len(dm)
      dup  == \E i, j \in 1..n : i # j /\ Eq(dm[i].up, dm[j].up)
      rcd  == \E i, j \in 1..n : i # j /\ Eq(dm[i].up, RC(dm[j].up))
      pal  == \E i \in 1..n : Eq(dm[i].up, RC(dm[i].up))
      same == Eq(dv.up, dv.down)
      w    == WalkW(dm, dv.up, dv.down, {}, << >>)
  IN [same |-> same, dup |-> dup \/ rcd, pal |-> pal, walk |-> w,
      chain |-> IF w[1] = "ok" THEN w[2] ELSE << >>,
      unused |-> IF w[1] = "ok" THEN {i \in 1..n : \A j \in 1..Len(w[2]) : w[2][j] # i} ELSE {}]
\* (a palindromic start overhang is not a duplicate: "no TWO supplied modules share or reverse-complement a start
\* overhang"; the bundled EcoFlex standard itself uses the palindromic fusion sites GTAC and TCGA)
ProductExpected(g) == ~g.same /\ ~g.dup /\ g.walk[1] = "ok"
ProductAllowed(g)  == ProductExpected(g)
ErrorAllowed(g, exc) ==
  \/ exc = "InvalidSequence" /\ g.same
  \/ exc = "DuplicateModules" /\ g.dup
  \/ exc = "MissingModule" /\ (g.walk[1] = "missing" \/ g.dup)
Pieces(dm, dv, chain) == [j \in 1..(Len(chain) + 1) |-> IF j <= Len(chain) THEN dm[chain[j]].tgt ELSE dv.tgt]
Formula(dm, dv, chain) == Concat(Pieces(dm, dv, chain))

=============================================================================
