INIT Init
NEXT Next
CONSTANTS
 Classes = {"G", "P"}
 Records = {"r1", "r2"}
 Seqs = {"valid", "rotated", "broken"}
 MaxWrappers = 3
 MaxSteps = 6
 KeyMode = "class-record"
INVARIANT C06_FirstAnswerIsCurrent
INVARIANT C06_WrapperRepeatsItself
CHECK_DEADLOCK FALSE
