INIT Init
NEXT Next
CONSTANTS
 G = 2
 Scale = 2
INVARIANT C02_RotInv
CHECK_DEADLOCK FALSE
