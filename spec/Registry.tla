------------------------------ MODULE Registry ------------------------------
(* Registries as read-only mappings (moclo/registry/base.py) - C20.
   The only registry with a history is the combined one: members are added one
   after the other and the first member holding an id wins.  A member is a
   sequence of items [id, tag] (tag = which physical plasmid it is, so that
   "first wins" is observable); a member may itself be a combination.        *)
EXTENDS RegistryOps, TLC
CONSTANTS MaxAdds
\* flat members over the ids a..d, overlapping on purpose, tagged by origin
M1 == << [id |-> "a", tag |-> 1], [id |-> "b", tag |-> 1] >>
M2 == << [id |-> "b", tag |-> 2], [id |-> "c", tag |-> 2] >>
M3 == << [id |-> "c", tag |-> 3], [id |-> "a", tag |-> 3], [id |-> "d", tag |-> 3] >>
E0 == << >>
C12 == AddTo(AddTo(<< >>, M1), M2)         \* nested combinations used as members
C32 == AddTo(AddTo(<< >>, M3), M2)
Member(n) == CASE n = "M1" -> M1 [] n = "M2" -> M2 [] n = "M3" -> M3 [] n = "E0" -> E0 [] n = "C12" -> C12 [] n = "C32" -> C32
Names == {"M1", "M2", "M3", "E0", "C12", "C32"}

VARIABLES comb, hist, inner, added
vars == <<comb, hist, inner, added>>
\* comb  = the combined registry under observation;  inner = a second LIVE combined registry that is used as a member of the
\* first and keeps growing afterwards (the same object is added again later);  added = what each addition brought along
Init == comb = << >> /\ hist = << >> /\ inner = << >> /\ added = << >>
Add(n) == /\ Len(hist) < MaxAdds
          /\ comb' = AddTo(comb, Member(n))
          /\ hist' = Append(hist, n) /\ added' = Append(added, Member(n))
          /\ UNCHANGED inner
\* the live member receives one more member of its own ...
GrowInner(n) == /\ Len(hist) < MaxAdds
                /\ inner' = AddTo(inner, Member(n))
                /\ hist' = Append(hist, "I:" \o n) /\ added' = Append(added, << >>)
                /\ UNCHANGED comb
\* ... and is added (again) to the combined registry: everything it holds NOW is merged, the first holder of an id wins
AddInner == /\ Len(hist) < MaxAdds /\ inner # << >>
            /\ comb' = AddTo(comb, inner)
            /\ hist' = Append(hist, "I") /\ added' = Append(added, inner)
            /\ UNCHANGED inner
\* a registry may be looked at between two additions (len / iteration / lookup): nothing changes
Observe == /\ Len(hist) < MaxAdds /\ hist # << >> /\ hist[Len(hist)] # "?"
           /\ hist' = Append(hist, "?") /\ added' = Append(added, << >>) /\ UNCHANGED <<comb, inner>>
Next == (\E n \in Names : Add(n)) \/ (\E n \in {"M1", "M2", "M3"} : GrowInner(n)) \/ AddInner \/ Observe

C20_KeysOnce == \A i, j \in 1..Len(comb) : i # j => comb[i].id # comb[j].id
Adds == 1..Len(added)
C20_UnionOfMembers == Ids(comb) = UNION {Ids(added[k]) : k \in Adds}
C20_FirstWins == \A i \in 1..Len(comb) :
   LET first == CHOOSE k \in Adds : comb[i].id \in Ids(added[k]) /\ \A k2 \in Adds : k2 < k => comb[i].id \notin Ids(added[k2])
       m == added[first]
   IN \E x \in 1..Len(m) : m[x].id = comb[i].id /\ m[x].tag = comb[i].tag
C20_AddingTwiceChangesNothing == \A k \in Adds : AddTo(comb, added[k]) = comb
\* once the live member has been added in its present state, the combined registry holds every key the member holds
C20_LiveMemberCovered == (hist # << >> /\ hist[Len(hist)] = "I") => Ids(inner) \subseteq Ids(comb)
ASSUME PrintT(<<"WORLD", [n \in Names |-> Member(n)]>>)
=============================================================================
