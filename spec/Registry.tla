------------------------------ MODULE Registry ------------------------------
(* Registries as read-only mappings (moclo/registry/base.py) - C20.
   The only registry with a history is the combined one: members are added one
   after the other and the first member holding an id wins.  A member is a
   sequence of items [id, tag] (tag = which physical plasmid it is, so that
   "first wins" is observable); a member may itself be a combination.        *)
EXTENDS RegistryOps, TLC
CONSTANTS MaxAdds
\* flat members over the ids a..d, overlapping on purpose, tagged by origin
M1 == << [id |-> "a", tag |-> 1], [id |-> "b", tag |-> 1] >>
M2 == << [id |-> "b", tag |-> 2], [id |-> "c", tag |-> 2] >>
M3 == << [id |-> "c", tag |-> 3], [id |-> "a", tag |-> 3], [id |-> "d", tag |-> 3] >>
E0 == << >>
C12 == AddTo(AddTo(<< >>, M1), M2)         \* nested combinations used as members
C32 == AddTo(AddTo(<< >>, M3), M2)
Member(n) == CASE n = "M1" -> M1 [] n = "M2" -> M2 [] n = "M3" -> M3 [] n = "E0" -> E0 [] n = "C12" -> C12 [] n = "C32" -> C32
Names == {"M1", "M2", "M3", "E0", "C12", "C32"}

VARIABLES comb, hist
vars == <<comb, hist>>
Init == comb = << >> /\ hist = << >>
Add(n) == /\ Len(hist) < MaxAdds
          /\ comb' = AddTo(comb, Member(n))
          /\ hist' = Append(hist, n)
\* a registry may be looked at between two additions (len / iteration / lookup): nothing changes
Observe == /\ Len(hist) < MaxAdds /\ hist # << >> /\ hist[Len(hist)] # "?"
           /\ hist' = Append(hist, "?") /\ UNCHANGED comb
Next == (\E n \in Names : Add(n)) \/ Observe

C20_KeysOnce == \A i, j \in 1..Len(comb) : i # j => comb[i].id # comb[j].id
Adds == {k \in 1..Len(hist) : hist[k] # "?"}
C20_UnionOfMembers == Ids(comb) = UNION {Ids(Member(hist[k])) : k \in Adds}
C20_FirstWins == \A i \in 1..Len(comb) :
   LET first == CHOOSE k \in Adds : comb[i].id \in Ids(Member(hist[k])) /\ \A k2 \in Adds : k2 < k => comb[i].id \notin Ids(Member(hist[k2]))
       m == Member(hist[first])
   IN \E x \in 1..Len(m) : m[x].id = comb[i].id /\ m[x].tag = comb[i].tag
C20_AddingTwiceChangesNothing == \A k \in Adds : AddTo(comb, Member(hist[k])) = comb
ASSUME PrintT(<<"WORLD", [n \in Names |-> Member(n)]>>)
=============================================================================
