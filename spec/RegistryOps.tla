---------------------------- MODULE RegistryOps ----------------------------
(* The union of registries: a member is a sequence of items [id, tag]; adding a member
   keeps what is already there (setdefault) and appends the new ids in order.      *)
EXTENDS Integers, Sequences, FiniteSets
Ids(m) == {m[i].id : i \in 1..Len(m)}
\* what adding member m to the item sequence c gives: setdefault semantics, insertion order kept
RECURSIVE AddTo(_, _)
AddTo(c, m) == IF m = << >> THEN c
               ELSE AddTo(IF Head(m).id \in Ids(c) THEN c ELSE Append(c, Head(m)), Tail(m))
=============================================================================
