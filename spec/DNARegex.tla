----------------------------- MODULE DNARegex -----------------------------
(* DNA pattern search (moclo/regex.py: DNARegex.search, SeqMatch).

   A pattern is a sequence of tokens
      [k |-> "lit",   c |-> code]               one letter of the pattern
      [k |-> "star",  c |-> code, lazy |-> b]   "X*" (greedy) / "X*?" (lazy) run
      [k |-> "open"] / [k |-> "close"]          capture group parentheses
   which is the whole pattern language the kits and the core classes use.

   Two definitions are given and proved equal by TLC on small scope
   (MC_DNARegex):  an implementation-shaped one (anchored backtracking in
   Python's priority order, scan over start positions, one-turn window on the
   doubled data), and a declarative one (position-set semantics).           *)
EXTENDS DNA

\* Does pattern letter p match data letter x?  Case-insensitive.  A pattern
\* letter that is a nucleotide matches itself; an ambiguity code matches the
\* nucleotides of its IUPAC set.  (Deliberate deviation, as in the code: the
\* pattern letter N also matches the data letter N; data letters outside
\* A,C,G,T are otherwise matched only by themselves.  A LOWER-case pattern letter
\* is left as it is by the transcription, so "n" or "r" in a pattern match only
\* the data letters N/n, R/r.)
LetterMatches(p, x) ==
  LET u == Upper(x) IN
  IF p \in 1..4 THEN u = p
  ELSE IF p \in 5..15 THEN u \in IUPAC(p) \/ (p = 15 /\ u = 15)
  ELSE IF p > 16 THEN u = p - 16     \* a lower-case pattern letter is not expanded (only upper-case codes are): it stands for itself
  ELSE u = p

NoMatch == <<FALSE, 0, << >> >>

\* Anchored match of toks[ti..] on data[pos .. lim) ; result <<ok, end, marks>>
\* where marks are the data positions of the group parentheses, in pattern order.
RECURSIVE First(_, _, _, _, _, _)
First(toks, ti, data, pos, lim, marks) ==
  IF ti > Len(toks) THEN <<TRUE, pos, marks>>
  ELSE LET t == toks[ti] IN
    IF t.k = "lit" THEN
       IF pos < lim /\ LetterMatches(t.c, data[pos + 1])
       THEN First(toks, ti + 1, data, pos + 1, lim, marks) ELSE NoMatch
    ELSE IF t.k = "star" THEN
       LET nb  == {j \in (pos + 1)..lim : ~LetterMatches(t.c, data[j])}
           run == IF nb = {} THEN lim - pos ELSE Min(nb) - 1 - pos
           ok  == {L \in 0..run : First(toks, ti + 1, data, pos + L, lim, marks)[1]}
       IN IF ok = {} THEN NoMatch
          ELSE First(toks, ti + 1, data, pos + (IF t.lazy THEN Min(ok) ELSE Max(ok)), lim, marks)
    ELSE First(toks, ti + 1, data, pos, lim, Append(marks, pos))

Data(seq, circ)      == IF circ THEN seq \o seq ELSE seq
Limit(seq, i, circ)  == IF circ THEN i + Len(seq) ELSE Len(seq)
MatchAt(toks, seq, i, circ) == First(toks, 1, Data(seq, circ), i, Limit(seq, i, circ), << >>)

\* every start at which one turn (circular) or the rest (linear) matches
Starts(toks, seq, circ) == {i \in 0..(Len(seq) - 1) : MatchAt(toks, seq, i, circ)[1]}

\* moclo's search: leftmost start in [pos, min(n, endpos))
SearchIn(St, toks, seq, pos, endpos, circ) ==
  LET hits == {i \in St : pos <= i /\ i < endpos} IN
  IF hits = {} THEN [ok |-> FALSE, s |-> 0, e |-> 0, m |-> << >>]
  ELSE LET i == Min(hits)
           r == MatchAt(toks, seq, i, circ)
       IN [ok |-> TRUE, s |-> i, e |-> r[2], m |-> r[3]]
Search(toks, seq, pos, endpos, circ) ==
  \* scan start positions upwards, as the code does; only positions in range are tried
  LET RECURSIVE scan(_)
      scan(i) == IF i >= Len(seq) \/ i >= endpos THEN [ok |-> FALSE, s |-> 0, e |-> 0, m |-> << >>]
                 ELSE LET r == MatchAt(toks, seq, i, circ) IN
                      IF r[1] THEN [ok |-> TRUE, s |-> i, e |-> r[2], m |-> r[3]] ELSE scan(i + 1)
  IN scan(IF pos < 0 THEN 0 ELSE pos)

\* What group() must return for a span [a, b) of a match on `seq`: the matched text.
GroupText(seq, a, b) == CycSlice(seq, a, b)

\* ---- declarative semantics: position sets -------------------------------
\* Ends(toks, data, S, lim): the set of positions reachable from a position in S
\* after consuming all tokens (the language of the pattern, no priority).
RECURSIVE EndsFrom(_, _, _, _, _)
EndsFrom(toks, ti, data, S, lim) ==
  IF ti > Len(toks) \/ S = {} THEN S
  ELSE LET t == toks[ti] IN
    IF t.k = "lit" THEN
       EndsFrom(toks, ti + 1, data, {p + 1 : p \in {q \in S : q < lim /\ LetterMatches(t.c, data[q + 1])}}, lim)
    ELSE IF t.k = "star" THEN
       EndsFrom(toks, ti + 1, data,
                UNION {{q \in p..lim : \A j \in (p + 1)..q : LetterMatches(t.c, data[j])} : p \in S}, lim)
    ELSE EndsFrom(toks, ti + 1, data, S, lim)
MatchesAt(toks, seq, i, circ) == EndsFrom(toks, 1, Data(seq, circ), {i}, Limit(seq, i, circ)) # {}

\* A claimed match <<s, e, marks>> is a parse of the pattern: cutting the tokens
\* at the group marks, each piece is in the language of its token segment.
Groups(toks) == Cardinality({i \in 1..Len(toks) : toks[i].k = "open"})
\* spans of groups from marks: marks are in order of parentheses; pair them with a stack
RECURSIVE PairUp(_, _, _, _, _)
PairUp(toks, ti, mi, stack, acc) ==   \* acc: sequence of <<openIndex, a, b>>
  IF ti > Len(toks) THEN acc
  ELSE IF toks[ti].k = "open" THEN PairUp(toks, ti + 1, mi + 1, <<mi>> \o stack, acc)
  ELSE IF toks[ti].k = "close" THEN PairUp(toks, ti + 1, mi + 1, Tail(stack), Append(acc, <<Head(stack), mi>>))
  ELSE PairUp(toks, ti + 1, mi, stack, acc)
\* group number g (1-based, by order of opening parenthesis) |-> <<a, b>>
OpenRank(toks, m) == Cardinality({i \in 1..Len(toks) : toks[i].k = "open"})   \* (unused helper kept for readability)
Spans(toks, marks) ==
  LET prs   == PairUp(toks, 1, 1, << >>, << >>)                 \* <<open mark idx, close mark idx>>
      opens == {prs[j][1] : j \in 1..Len(prs)}
      rank(oi) == Cardinality({x \in opens : x <= oi})
  IN [g \in 1..Len(prs) |-> LET j == CHOOSE j \in 1..Len(prs) : rank(prs[j][1]) = g
                            IN <<marks[prs[j][1]], marks[prs[j][2]]>>]
=============================================================================
