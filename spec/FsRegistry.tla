----------------------------- MODULE FsRegistry -----------------------------
(* A directory-backed registry (moclo.registry.base.FilesystemRegistry): which keys it lists
   and which keys it can look up.  A directory entry is [stem, ext, isdir]; the registry is
   configured with the extensions it supports.  C20 needs listing and lookup to agree.
   The constant CaseInsensitiveListing names the defect found in the pinned tree (D8: the
   listing matched extensions case-insensitively, the lookup did not) - negative model.     *)
EXTENDS Integers, Sequences, FiniteSets, TLC
CONSTANTS CaseInsensitiveListing
Supported == {"gb", "gbk"}
LowerOf(x) == CASE x = "GB" -> "gb" [] x = "Gbk" -> "gbk" [] x = "GBK" -> "gbk" [] OTHER -> x
ListedExt(x) == IF CaseInsensitiveListing THEN LowerOf(x) \in Supported ELSE x \in Supported
Listing(dir) == {dir[i].stem : i \in {j \in 1..Len(dir) : ~dir[j].isdir /\ ListedExt(dir[j].ext)}}
Found(dir, k) == \E i \in 1..Len(dir) : ~dir[i].isdir /\ dir[i].stem = k /\ dir[i].ext \in Supported
Coherent(dir) == \A k \in Listing(dir) : Found(dir, k)
Complete(dir) == \A i \in 1..Len(dir) : Found(dir, dir[i].stem) => dir[i].stem \in Listing(dir)

\* small directories: distinct stems, every extension, files and sub-directories
Exts == {"gb", "gbk", "GB", "Gbk", "txt", "fasta"}
VARIABLE dir
Init == dir = << >>
Next == /\ Len(dir) < 3
        /\ \E e \in Exts, d \in BOOLEAN : dir' = Append(dir, [stem |-> Len(dir) + 1, ext |-> e, isdir |-> d])
C20_ListingLookupCoherent == Coherent(dir) /\ Complete(dir)
=============================================================================
