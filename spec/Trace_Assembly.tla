--------------------------- MODULE Trace_Assembly ---------------------------
(* Implementation traces of AbstractVector.assemble against the specification, at the
   level of DNA.  Everything the event is judged against is recomputed by TLC from the
   raw input sequences and the declared enzyme geometry through Restriction.tla
   (sites and cuts -> canonic decompositions -> overhang graph -> Expected outcome
   -> documented closed form of the product -> fragment map for annotations).
   Clauses of C01, C03, C07, C08, C09, C10, C17 and, on twin calls, C02, C12, C18, C19. *)
EXTENDS AssemblyDNA, TraceBase

VARIABLE l
vars == <<l>>

\* ---- the inputs, decomposed from sites and cuts only ---------------------------------
MinBody == 2       \* deliberate deviation named in DESIGN 5: the generic structures need >= 2 nt of target / backbone
Dm(e) == [i \in 1..Len(e.mods) |-> DecompModule(e.mods[i].seq, e.enz)]
\* (vloose: the driver says the vector belongs to a kit class whose structure does not cover the backbone, and put a further
\* site of the enzyme there)
Dv(e) == LET d == DecompVector(e.vec.seq, e.enz) IN
         IF d.ok \/ ~("vloose" \in DOMAIN e /\ e.vloose) THEN d ELSE DecompVectorLoose(e.vec.seq, e.enz)
WellFormed(e, dm, dv) ==
  /\ dv.ok /\ Len(dv.tgt) >= e.enz.ovh + MinBody
  /\ \A i \in 1..Len(dm) : dm[i].ok /\ Len(dm[i].tgt) >= e.enz.ovh + MinBody

SameOutcome(a, b, up) ==        \* two calls end alike (products equal as circles; up = compare case-insensitively)
  /\ a.kind = b.kind
  /\ a.kind = "error" => a.isa = b.isa /\ Eq(a.attr_ovh, b.attr_ovh)
  /\ a.kind = "product" => IF up THEN CycEq(UpperW(a.seq), UpperW(b.seq)) ELSE CycEq(a.seq, b.seq)

\* the same, for two spellings of the same inputs: also the modules an error names and the order in which a warning lists them
Opt(r, f) == IF f \in DOMAIN r THEN r[f] ELSE << >>
SameOutcomeCase(a, b) == /\ SameOutcome(a, b, TRUE)
                         /\ a.kind = "error" => Opt(a, "dup_ids") = Opt(b, "dup_ids")
                         /\ a.kind = "product" => Opt(a, "unused_o") = Opt(b, "unused_o")

\* ---- fragment map: where the nucleotides (and so the features) of each input end up -------
\* piece j of the formula comes from input x = Src(j): fragment [cutA, cutA + Len) of x
Offsets(pieces) == [j \in 1..Len(pieces) |-> SumSeq([i \in 1..(j - 1) |-> Len(pieces[i])])]
Inside(f, a, nx, Lp) == \A p \in Positions(f) : ((p - a) % nx) < Lp
\* (an unstranded part has no reading direction: its positions are listed in ascending order, as the projection lists them)
AscSeq(S) == LET RECURSIVE f(_) f(T) == IF T = {} THEN << >> ELSE <<Min(T)>> \o f(T \ {Min(T)}) IN f(S)
CanonPart(n, p) ==
  IF Len(p.idx) = n THEN [st |-> p.st, idx |-> IF p.st = -1 THEN [i \in 1..n |-> n - i] ELSE [i \in 1..n |-> i - 1]]
  ELSE IF p.st = 0 THEN [st |-> 0, idx |-> AscSeq({p.idx[i] : i \in 1..Len(p.idx)})]
  ELSE p
MapPart(p, a, nx, off, k, P) ==
  LET m(q) == (off + ((q - a) % nx) + k) % P
      raw == [st |-> p.st, idx |-> [i \in 1..Len(p.idx) |-> m(p.idx[i])]]
  IN CanonPart(P, raw)
MapFeat(f, a, nx, off, k, P) ==
  [lab |-> f.lab, cites |-> f.cites, parts |-> [i \in 1..Len(f.parts) |-> MapPart(f.parts[i], a, nx, off, k, P)]]
Key(f)    == [lab |-> f.lab, parts |-> {f.parts[i] : i \in 1..Len(f.parts)}]
KeyC(f)   == [lab |-> f.lab, parts |-> {f.parts[i] : i \in 1..Len(f.parts)}, cites |-> f.cites]

AnnotationFails(e, dm, dv, chain) ==
  LET out    == e.out
      pieces == Pieces(dm, dv, chain)
      offs   == Offsets(pieces)
      F      == Concat(pieces)
      P      == Len(F)
      m      == Len(chain)
      src(j) == IF j <= m THEN e.mods[chain[j]] ELSE e.vec
      cut(j) == IF j <= m THEN dm[chain[j]].cutA ELSE dv.cutA
      ks     == IF out.seq = F THEN {0} ELSE {(P - k) % P : k \in CycOffsets(out.seq, F)}   \* out = F rotated right by k
      \* generated provenance feature of piece j under alignment k
      span(j, k) == {(offs[j] + i + k) % P : i \in 0..(Len(pieces[j]) - 1)}
      isGen(g, j, k) == g.type = "source" /\ g.plasmid = src(j).id /\ Positions(g) = span(j, k)     \* names the input, spans its fragment
      \* An input may itself carry a feature that looks exactly like the provenance feature generated for it (a product that was
      \* given the id of one of its own parts, used again one level up): `alike(j)` counts them; one of the matching features
      \* per piece is the generated one (which one is immaterial: they are equal in every field), the others are inherited.
      matches(j, k) == {i \in 1..Len(out.feats) : isGen(out.feats[i], j, k)}
      alike(j) == LET x == src(j)  a == cut(j)  nx == Len(x.seq) IN
                  Cardinality({i \in 1..Len(x.feats) : /\ Inside(x.feats[i], a, nx, Len(pieces[j]))
                                                        /\ x.feats[i].type = "source" /\ x.feats[i].plasmid = x.id
                                                        /\ Cardinality(Positions(x.feats[i])) = Len(pieces[j])})
      gens(k) == {Min(matches(j, k)) : j \in {jj \in 1..(m + 1) : matches(jj, k) # {}}}
      \* expected images of the input features lying entirely inside their retained fragment
      images(k) == Concat([j \in 1..(m + 1) |->
                      LET x == src(j)  a == cut(j)  nx == Len(x.seq)
                          keep == SelectSeq(x.feats, LAMBDA f : Inside(f, a, nx, Len(pieces[j])))
                      IN [i \in 1..Len(keep) |-> MapFeat(keep[i], a, nx, offs[j], k, P)]])
      \* a site between two bases that sits exactly on a junction of the product (its two neighbours come from different pieces):
      \* the statement does not say whether a site AT the cut belongs to the fragment - it may or may not be carried over
      onJunction(g, k) == /\ "between" \in DOMAIN g /\ g.between
                          /\ \E j \in 1..(m + 1) : LET inj == Positions(g) \cap span(j, k) IN inj # {} /\ inj # Positions(g)
      others(k) == LET idx == {i \in 1..Len(out.feats) : i \notin gens(k) /\ ~onJunction(out.feats[i], k)}
                       RECURSIVE sel(_)
                       sel(S) == IF S = {} THEN << >> ELSE <<out.feats[Min(S)]>> \o sel(S \ {Min(S)})
                   IN sel(idx)
      \* everything that depends on the alignment k is computed once per k (LET-bound values are cached by TLC)
      Judge(k) ==
        LET im == images(k)
            ot == others(k)
            ki == [i \in 1..Len(im) |-> Key(im[i])]     ko == [i \in 1..Len(ot) |-> Key(ot[i])]
            ci == [i \in 1..Len(im) |-> KeyC(im[i])]    co == [i \in 1..Len(ot) |-> KeyC(ot[i])]
        IN [inherit |-> BagEq(ki, ko),
            citesq  |-> BagEq(ci, co),
            cites   |-> BagEq(ci, co) /\ SeqToSet(out.refs) = UNION {{im[i].cites[c] : c \in 1..Len(im[i].cites)} : i \in 1..Len(im)},
            tile    |-> \A j \in 1..(m + 1) : Cardinality(matches(j, k)) = 1 + alike(j)]
      judged == [k \in ks |-> Judge(k)]
  IN IF ks = {} THEN {}          \* product is not the formula: reported by C01
     ELSE Chk("C08:FeaturesInherited", \E k \in ks : judged[k].inherit)
          \* ... the /citation qualifier included: read through the reference lists it says what it said in the source
          \cup Chk("C08:QualifiersInherited", (\E k \in ks : judged[k].inherit) => (\E k \in ks : judged[k].inherit /\ judged[k].citesq))
          \cup Chk("C09:SourcesTile", \E k \in ks : judged[k].tile)
          \cup Chk("C09:SourcesVerbatim",
                   \* the plasmids a source feature may name: the inputs of this call and, in a multi-level history, the
                   \* inputs of the earlier levels (inner provenance nested inside the outer one)
                   LET named == {<<x.id, x.seq>> : x \in {e.vec} \cup SeqToSet(e.mods)}
                                \cup (IF "origins" \in DOMAIN e THEN {<<o.id, o.seq>> : o \in SeqToSet(e.origins)} ELSE {})
                   IN
                   \A i \in 1..Len(out.feats) :
                      LET g == out.feats[i] IN
                      (g.type = "source" /\ Len(g.parts) = 1 /\ \E x \in named : x[1] = g.plasmid) =>
                         \E x \in named :
                            x[1] = g.plasmid /\ LET ix == g.parts[1].idx
                                                   txt == [q \in 1..Len(ix) |-> out.seq[(IF g.parts[1].st = -1 THEN ix[Len(ix) + 1 - q] ELSE ix[q]) + 1]]
                                               IN OccursCirc(txt, x[2]))
          \cup Chk("C10:RefsOnceAndSameTarget",
                   /\ \E k \in ks : judged[k].cites
                   /\ \A i, j \in 1..Len(out.refs) : i # j => out.refs[i] # out.refs[j]
                   /\ \A i \in 1..Len(out.feats) : out.feats[i].bracketed)

AssembleFails(e) ==
  LET dm == Dm(e)  dv == Dv(e)  out == e.out
      wf == WellFormed(e, dm, dv) /\ e.generic
      g  == Graph(dm, dv)
      nofault == e.fault.at = 0 \/ out.fired = ""
      F  == Formula(dm, dv, g.chain)
  IN
  \* C07: every input reads the same after the call - product, warning, error or injected fault
  Chk("C07:InputsRestored", e.after = e.before)
  \* C10: the citation qualifiers of every input read afterwards as they were written before - product, warning or error
  \cup (IF "cit_before" \in DOMAIN e THEN Chk("C10:InputCitationsUnchanged", e.cit_after = e.cit_before) ELSE {})
  \* C03: the outcome is a function of the overhang graph - the same call again names the same left-out modules (warnings
  \* recorded the way a session sees them: one recording block around both calls, Python's default action)
  \cup (IF e.rep.has /\ e.fault.at = 0 /\ out.kind = "product"
        THEN Chk("C03:OutcomeRepeatable", e.rep.out.kind = "product" /\ e.rep.out.unused = out.unused /\ e.rep.out.nwarn = out.nwarn) ELSE {})
  \cup (IF e.rep.has THEN Chk("C07:RepeatGivesSame",
                               /\ e.rep.after = e.before
                               /\ (nofault => /\ e.rep.out.kind = out.kind /\ e.rep.out.exc = out.exc /\ e.rep.out.seq = out.seq
                                              /\ e.rep.out.feats = out.feats /\ e.rep.out.refs = out.refs /\ e.rep.out.unused = out.unused))
        ELSE {})
  \* C17: without an injected fault, a failure is one of the MoClo errors
  \cup (IF nofault /\ out.kind = "error" THEN Chk("C17:AssemblyFailsWithMocloError", out.moclo) ELSE {})
  \cup (IF ~wf \/ ~nofault THEN (IF wf THEN {} ELSE {"S:AssemblyPrecondition"}) ELSE
        \* C03: the outcome is a function of the overhang graph
        Chk("C03:OutcomeIsExpected",
            /\ ProductExpected(g) => out.kind = "product"
            /\ out.kind = "product" => ProductAllowed(g)
            /\ out.kind = "error" => \E k \in SeqToSet(out.isa) : ErrorAllowed(g, k))
        \* C01: a chain that closes yields the product (what it is, is judged below)
        \cup (IF ProductExpected(g) THEN Chk("C01:ProductReturned", out.kind = "product") ELSE {})
        \* C10: records with citations assemble like records without them
        \cup (IF \E x \in {e.vec} \cup SeqToSet(e.mods) : \E i \in 1..Len(x.feats) : Len(x.feats[i].cites) > 0
              THEN Chk("C10:CitedAssembleLikeUncited",
                       /\ ProductExpected(g) => out.kind = "product"
                       /\ out.kind = "error" => \E k \in SeqToSet(out.isa) : ErrorAllowed(g, k))
              ELSE {})
        \cup (IF out.kind = "error" /\ InSeq("MissingModule", out.isa) /\ ~g.dup /\ g.walk[1] = "missing"
              THEN Chk("C03:MissingNamesStall", Eq(out.attr_ovh, g.walk[2])) ELSE {})
        \cup (IF out.kind = "product" /\ ProductAllowed(g)
              THEN Chk("C03:UnusedExactlyLeftover",
                       /\ SeqToSet(out.unused) = {e.mods[i].id : i \in g.unused}
                       /\ (g.unused = {}) = (out.nwarn = 0))
                   \* C01: the product is the documented closed form
                   \cup Chk("C01:ProductIsFormula", CycEq(out.seq, F))
                   \cup Chk("C01:LengthIsSum", Len(out.seq) = Len(dv.tgt) + SumSeq([j \in 1..Len(g.chain) |-> Len(dm[g.chain[j]].tgt)]))
                   \cup Chk("C09:MetaRequested", out.id = e.args.id /\ out.name = e.args.name /\ out.circular /\ out.topo = "circular"
                                                 /\ out.cv /\ \A i \in 1..Len(out.cm) : out.cm[i])
                   \cup AnnotationFails(e, dm, dv, g.chain)
              ELSE {})
        \* twins: the same assembly with transformed inputs
        \cup (IF e.twin.by = "perm" THEN Chk("C03:OrderIndependent", SameOutcome(out, e.twin.out, FALSE)
                                                 /\ e.twin.out.unused = out.unused) ELSE {})
        \cup (IF e.twin.by = "rot" THEN Chk("C02:RotInvAssembly", SameOutcome(out, e.twin.out, FALSE)) ELSE {})
        \cup (IF e.twin.by = "case" THEN Chk("C18:CaseInvAssembly", SameOutcomeCase(out, e.twin.out)) ELSE {})
        \* (spare modules are allowed when the reverse-complemented set cannot run into a duplicate: the END overhangs of the
        \* supplied modules are pairwise different and no two of them are reverse complements of each other)
        \* (either strand may be the one that is refused: the clause applies when one of the two calls gave a product)
        \cup (IF e.twin.by = "rc" /\ (out.kind = "product" \/ (e.twin.out.kind = "product" /\ ProductExpected(g)))
                 /\ (g.unused = {} \/ ((\A i \in 1..Len(dm) : dm[i].ok)
                                        /\ \A i, j \in 1..Len(dm) : i # j => ~Eq(dm[i].down, dm[j].down) /\ ~Eq(dm[i].down, RC(dm[j].down))))
              THEN Chk("C12:StrandSymAssembly", out.kind = "product" /\ e.twin.out.kind = "product" /\ CycEq(e.twin.out.seq, RC(out.seq))) ELSE {})
        \cup (IF e.twin.by = "swap" /\ out.kind = "product" /\ ProductAllowed(g)
              THEN LET nd0 == DecompModule(e.twin.mod.seq, e.enz)
                       nd == IF nd0.ok THEN nd0 ELSE DecompModuleFirst(e.twin.mod.seq, e.enz)     \* (a valid module may carry more sites behind its structure)
                       j == e.twin.pos IN
                   IF nd.ok /\ Len(nd.tgt) >= e.enz.ovh + MinBody /\ Eq(nd.up, dm[j].up) /\ Eq(nd.down, dm[j].down)
                   THEN Chk("C19:Interchange",
                            /\ e.twin.out.kind = "product"
                            /\ CycEq(e.twin.out.seq, Formula([dm EXCEPT ![j] = nd], dv, g.chain))
                            \* nothing else of the product depends on the module that was exchanged: its description and the
                            \* per-letter annotation tracks it carries are those of the original product
                            /\ Opt(e.twin.out, "desc") = Opt(out, "desc") /\ Opt(e.twin.out, "letters") = Opt(out, "letters"))
                   ELSE {"S:C19Precondition"}
              ELSE {}))

RoundTripFails(e) ==
  IF ~e.legal THEN {"S:C09IllegalId"}
  ELSE Chk("C09:GenBankRoundTrip", e.exc = "" /\ e.after.seq = e.before.seq /\ e.after.topo = "circular"
                                   /\ e.after.feats = e.before.feats)

\* ---- C11: the product of one level is a valid module of the next level ---------------------
NoRaise(r) == \A i \in 1..Len(r.qexc) : r.qexc[i] = ""
\* "the whole insert" of a module: its retained fragment; when the fragment itself carries the pair of
\* next-level sites (YTK products embed the BsaI sites of the entry they become), the stretch between the
\* next-level cuts of the fragment (read together with its trailing overhang) - the rest is, by the next
\* level's own definition, flank and not target.
InsertOf(d, nenz) ==
  LET w == d.tgt \o d.down
      F == LinFwd(w, nenz)   R == LinRev(w, nenz)
  IN IF Cardinality(F) = 1 /\ Cardinality(R) = 1
     THEN LET p == CHOOSE p \in F : TRUE   q == CHOOSE q \in R : TRUE
              a == p + Len(nenz.site) + nenz.off   b == q - nenz.off - nenz.ovh
          IN IF a <= b THEN LinSlice(w, a, b) ELSE d.tgt
     ELSE d.tgt
NextLevelFails(e) ==
  LET dm == Dm(e)  dv == Dv(e)  P == e.out.seq IN
  IF ~dv.ok \/ (\E i \in 1..Len(dm) : ~dm[i].ok \/ Len(dm[i].tgt) < e.enz.ovh + 2)
  THEN {"S:C11Precondition"}
  ELSE IF e.out.kind # "product"
  THEN (IF ProductExpected(Graph(dm, dv)) THEN {"C11:LevelAssemblySucceeds"} ELSE {"S:C11Precondition"})
  ELSE LET g == Graph(dm, dv) IN
  IF ~ProductExpected(g) \/ g.unused # {} \/ ~TwoSites(P, e.nenz) THEN {"S:C11Precondition"}
  ELSE IF LET d0 == DecompModule(P, e.nenz) IN d0.ok /\ Len(d0.tgt) < e.nenz.ovh + MinBody
       THEN {"S:C11Precondition"}       \* the next-level body would be shorter than the generic structure's minimum
  ELSE LET nd == DecompModule(P, e.nenz)
           inserts == Concat([j \in 1..Len(g.chain) |-> InsertOf(dm[g.chain[j]], e.nenz)])
           r == e.next.res
       IN Chk("C11:ProductIsNextModule",
              /\ r.exc = "" /\ r.valid /\ NoRaise(r) /\ nd.ok
              /\ r.up = nd.up /\ r.down = nd.down /\ r.tgt = nd.tgt)
          \cup Chk("C11:TargetContainsInserts", r.valid /\ NoRaise(r) /\ OccursLin(inserts, r.tgt))
          \cup (IF e.second.has
                THEN Chk("C11:AssemblesAtNextLevel", e.second.out.kind = "product" /\ OccursCirc(r.tgt, e.second.out.seq))
                ELSE {})

Fails(e) == CASE e.ev = "Assemble" -> AssembleFails(e)
              [] e.ev = "NextLevel" -> NextLevelFails(e)
              [] e.ev = "RoundTrip" -> RoundTripFails(e)
              [] OTHER -> {"X:UnknownEvent"}
Init == l = 1
Next == /\ l <= Len(Log)
        /\ Report(l, Fails(Log[l]))
        /\ l' = l + 1
=============================================================================
