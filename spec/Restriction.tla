---------------------------- MODULE Restriction ----------------------------
(* Type IIS restriction enzymes and what they do to a circular plasmid.

   An enzyme is its geometry  enz = [site, off, ovh] :  recognition site
   (nucleotides, or ambiguity codes standing for their IUPAC sets), number of nucleotides between the site and the cut of
   the top strand, and length of the 5' overhang (the bottom strand is cut ovh
   nucleotides further).  Everything here is defined from sites and cut
   positions only - never from the structure patterns of the classes - which
   makes it an independent oracle for what the typing classes report.        *)
EXTENDS DNA

\* 0-based cyclic positions of forward / reverse occurrences of the site (case-insensitive)
FwdSites(w, enz) == LET u == UpperW(w) IN {p \in 0..(Len(w) - 1) : SiteAtCirc(u, p, enz.site)}
RevSites(w, enz) == LET u == UpperW(w)  r == RC(enz.site) IN {p \in 0..(Len(w) - 1) : SiteAtCirc(u, p, r)}
\* top-strand cut = position of the first nucleotide of the sticky end
FwdCut(w, enz, p) == (p + Len(enz.site) + enz.off) % Len(w)
RevCut(w, enz, q) == (q - enz.off - enz.ovh) % Len(w)
Sticky(w, enz, c) == CycSlice(w, c, c + enz.ovh)
TwoSites(w, enz)  == Cardinality(FwdSites(w, enz)) = 1 /\ Cardinality(RevSites(w, enz)) = 1
\* the stretch from cut a forward to cut b (never empty, never the whole circle unless a = b)
Between(w, a, b)  == CycSlice(w, a, a + ((b - a) % Len(w)))

\* Bio.Restriction's rule for a LINEAR digest (what the illegal-site screen uses):
\* sites are searched on the linear string, a cut counts iff the cuts of both strands fall inside (1, len].
LinFwd(r, enz) == LET u == UpperW(r) IN {p \in 0..(Len(r) - Len(enz.site)) : SiteAtLin(u, p, enz.site)}
LinRev(r, enz) == LET u == UpperW(r)  s == RC(enz.site) IN {p \in 0..(Len(r) - Len(enz.site)) : SiteAtLin(u, p, s)}
LinCuts(r, enz) ==
  LET len == Len(r)
      cf == {p + Len(enz.site) + enz.off + 1 : p \in LinFwd(r, enz)}
      cv == {p - enz.off - enz.ovh + 1 : p \in LinRev(r, enz)}
      keep(c) == 1 < c /\ c <= len /\ 1 < c + enz.ovh /\ c + enz.ovh <= len   \* both strand cuts inside
  IN Cardinality({c \in cf : keep(c)}) + Cardinality({c \in cv : keep(c)})   \* coinciding cuts count twice

\* ---- the canonic decompositions of docs/source/theory/standard.rst -----------
\* A module is  s x o5 t o3 y rc(s) b : exactly one forward and one reverse site, the
\* forward cut before the reverse cut.  Returned: [ok, up, tgt (= o5 . t), down, cutA, cutB].
DecompModule(w, enz) ==
  IF ~TwoSites(w, enz) THEN [ok |-> FALSE]
  ELSE LET p == CHOOSE p \in FwdSites(w, enz) : TRUE
           q == CHOOSE q \in RevSites(w, enz) : TRUE
           a == FwdCut(w, enz, p)
           b == RevCut(w, enz, q)
           n == Len(w)
           \* the forward site, the target and the reverse site must follow each other
           \* within one turn:  p < a <= b, b + ovh + off = q   (all read from p)
           da == (a - p) % n
           db == (b - p) % n
           dq == (q - p) % n
       IN IF da <= db /\ db < dq /\ dq + Len(enz.site) <= n
          THEN [ok |-> TRUE, up |-> Sticky(w, enz, a), down |-> Sticky(w, enz, b),
                tgt |-> Between(w, a, b), cutA |-> a, cutB |-> b]
          ELSE [ok |-> FALSE]
\* A module plasmid whose BACKBONE was never domesticated:  s x o5 t o3 y rc(s) b  where b holds further forward sites.
\* Read from the origin, the first forward site opens the structure, the single reverse site closes it, and every other
\* site lies behind it - the stretch from site to site is a module in the sense above and that is what a class reports.
DecompModuleFirst(w, enz) ==
  LET F == FwdSites(w, enz)  R == RevSites(w, enz) IN
  IF F = {} \/ Cardinality(R) # 1 THEN [ok |-> FALSE]
  ELSE LET p == Min(F)
           q == CHOOSE q \in R : TRUE
           a == p + Len(enz.site) + enz.off
           b == q - enz.off - enz.ovh
       IN IF /\ a <= b /\ q + Len(enz.site) <= Len(w)                 \* no wrap: the structure lies between the origin and its end
             /\ \A f \in F \ {p} : f >= q + Len(enz.site)              \* every other site is behind the structure
          THEN [ok |-> TRUE, up |-> Sticky(w, enz, a), down |-> Sticky(w, enz, b), tgt |-> Between(w, a, b), cutA |-> a, cutB |-> b]
          ELSE [ok |-> FALSE]
\* A vector is  o3 y rc(s) p s x o5 b : the reverse site comes first; what is kept
\* runs from the forward cut (upstream overhang o5 included) round to the reverse cut.
DecompVector(w, enz) ==
  IF ~TwoSites(w, enz) THEN [ok |-> FALSE]
  ELSE LET p == CHOOSE p \in FwdSites(w, enz) : TRUE
           q == CHOOSE q \in RevSites(w, enz) : TRUE
           a == FwdCut(w, enz, p)
           b == RevCut(w, enz, q)
           n == Len(w)
           dq == (q - b) % n       \* from the reverse cut: b < q < p < a
           dp == (p - b) % n
           da == (a - b) % n
       IN IF dq < dp /\ dp < da /\ dq + Len(enz.site) <= dp /\ da + enz.ovh <= n
          THEN [ok |-> TRUE, up |-> Sticky(w, enz, a), down |-> Sticky(w, enz, b),
                tgt |-> Between(w, a, b), ph |-> Between(w, b, a), cutA |-> a, cutB |-> b]
          ELSE [ok |-> FALSE]
\* A destination vector of a kit whose BACKBONE was never domesticated: the hand-written structures of the kit vectors are
\* anchored on the next-level sites and do not cover the backbone, so a further site of the vector's own enzyme there is legal
\* for those classes (not for the signature-free vector class, whose structure covers the whole plasmid).  The reverse site and
\* the forward site that have only the placeholder between them open the vector.
DecompVectorLoose(w, enz) ==
  LET F == FwdSites(w, enz)  R == RevSites(w, enz)  n == Len(w)  L == Len(enz.site)
      Adj(q, p) == LET dp == (p - q) % n IN dp >= L /\ \A x \in (F \cup R) \ {q, p} : (x - q) % n > dp
      pairs == {qp \in R \X F : Adj(qp[1], qp[2])}
  IN IF Cardinality(pairs) # 1 THEN [ok |-> FALSE]
     ELSE LET qp == CHOOSE x \in pairs : TRUE
              q == qp[1]  p == qp[2]
              a == FwdCut(w, enz, p)
              b == RevCut(w, enz, q)
              dq == (q - b) % n
              dp == (p - b) % n
              da == (a - b) % n
          IN IF dq < dp /\ dp < da /\ dq + L <= dp /\ da + enz.ovh <= n
             THEN [ok |-> TRUE, up |-> Sticky(w, enz, a), down |-> Sticky(w, enz, b),
                   tgt |-> Between(w, a, b), ph |-> Between(w, b, a), cutA |-> a, cutB |-> b]
             ELSE [ok |-> FALSE]
=============================================================================
