------------------------------ MODULE MC_Levels ------------------------------
(* C11 on a small world: two miniature enzymes (this level: GA N^NN_ ; next level:
   CCT N^NN_), a kit-shaped vector that places the next-level sites and overhangs
   around the this-level placeholder (the CIDAR / MoClo entry-vector shape), one or
   two inserts, every rotation of every plasmid.  The closed-form product is a
   module of the next level (canonic decomposition by the next-level enzyme exists),
   the generic next-level structure accepts it, reports exactly that decomposition,
   and its target contains every insert in chain order.                           *)
EXTENDS AssemblyDNA, TLC
CONSTANT Scale
This == [site |-> <<3, 1>>, off |-> 1, ovh |-> 2]
Nxt  == [site |-> <<2, 2, 4>>, off |-> 1, ovh |-> 2]
Sp(e) == [i \in 1..e.off |-> 1]
\* kit vector:  next.site sp (oD) sp rc(this.site) p this.site sp (oU) sp rc(next.site) backbone
MkKitVec(oD, p, oU, b) == Nxt.site \o Sp(Nxt) \o oD \o Sp(This) \o RC(This.site) \o p \o This.site \o Sp(This) \o oU
                          \o Sp(Nxt) \o RC(Nxt.site) \o b
MkMod(o5, t, o3, b) == This.site \o Sp(This) \o o5 \o t \o o3 \o Sp(This) \o RC(This.site) \o b
Ov == << <<1, 1>>, <<2, 1>>, <<1, 2>> >>        \* AA, CA, AC
TSet == IF Scale = 1 THEN {<<1, 1>>, <<4, 1, 1>>} ELSE {<<1, 1>>, <<4, 1, 1>>, <<1, 4, 1, 1>>}
VARIABLES ph, vec, mods
vars == <<ph, vec, mods>>
Init == ph = "init" /\ vec = << >> /\ mods = << >>
Build == /\ ph = "init"
         /\ \E two \in BOOLEAN, t1 \in TSet, t2 \in TSet, p \in {<< >>, <<4>>} :
              /\ vec' = MkKitVec(Ov[1], p, IF two THEN Ov[3] ELSE Ov[2], <<4, 1, 1>>)
              /\ mods' = IF two THEN <<MkMod(Ov[1], t1, Ov[2], <<1>>), MkMod(Ov[2], t2, Ov[3], << >>)>>
                         ELSE <<MkMod(Ov[1], t1, Ov[2], <<1, 4>>)>>
         /\ ph' = "rot"
RotVec == ph = "rot" /\ vec' = Rot(vec, 1) /\ UNCHANGED <<ph, mods>>
RotMod(i) == ph = "rot" /\ mods' = [mods EXCEPT ![i] = Rot(mods[i], 1)] /\ UNCHANGED <<ph, vec>>
Next == Build \/ RotVec \/ (\E i \in 1..Len(mods) : RotMod(i))

Dm == [i \in 1..Len(mods) |-> DecompModule(mods[i], This)]
Dv == DecompVector(vec, This)
C11_ProductIsNextModule ==
  ph = "rot" =>
    /\ Dv.ok
    /\ \A i \in 1..Len(mods) : Dm[i].ok
    /\ LET g == Graph(Dm, Dv)
           P == Formula(Dm, Dv, g.chain)
           nd == DecompModule(P, Nxt)
           t  == Typing(GenericModule(Nxt), Nxt, "module", P)
           inserts == Concat([j \in 1..Len(g.chain) |-> Dm[g.chain[j]].tgt])
       IN /\ ProductExpected(g) /\ TwoSites(P, Nxt)
          /\ nd.ok /\ t.ok /\ t.up = nd.up /\ t.down = nd.down /\ t.tgt = nd.tgt
          /\ OccursLin(inserts, t.tgt)
          \* rotating the product does not matter either
          /\ \A k \in {1, Len(P) \div 2} : Typing(GenericModule(Nxt), Nxt, "module", Rot(P, k)).tgt = t.tgt
=============================================================================
