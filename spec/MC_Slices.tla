------------------------------ MODULE MC_Slices ------------------------------
(* Theorems about the slice operators of CircularRecord.tla, evaluated by TLC over every word of
   length 0..4 over two letters, every bound in -6..6 or absent, every step in -3..3 (no state
   space: the ASSUMEs are the model).  C15: "slices are ... equal to the ordinary string slice". *)
EXTENDS CircularRecord, TLC
W == UNION {Words({1, 2}, n) : n \in 0..4}
R(w) == [seq |-> w, tag |-> w, feats |-> << >>, track |-> << >>, meta |-> ""]
None == [none |-> TRUE, v |-> 0]
B(i) == [none |-> FALSE, v |-> i]
Bounds == {None} \cup {B(i) : i \in -6..6}
Steps == {-3, -2, -1, 1, 2, 3}
Rev(w) == [i \in 1..Len(w) |-> w[Len(w) + 1 - i]]
\* with step 1 the extended slice is the plain slice (an absent bound is the corresponding end)
ASSUME \A w \in W, a \in -6..6, b \in -6..6 : StepSliceSeq(R(w), B(a), B(b), 1) = SliceSeq(R(w), a, b)
ASSUME \A w \in W : StepSliceSeq(R(w), None, None, 1) = w /\ StepSliceSeq(R(w), None, None, -1) = Rev(w)
\* a backwards slice is the reversal of the forward slice over the same letters (Python: w[a:b:-1] == w[b+1:a+1][::-1] for
\* bounds inside the word)
ASSUME \A w \in W : \A a \in 0..(Len(w) - 1), b \in 0..(Len(w) - 1) :
          StepSliceSeq(R(w), B(a), B(b), -1) = Rev(SliceSeq(R(w), b + 1, a + 1))
\* every step: the result picks letters at a constant stride, never more than the word holds
ASSUME \A w \in W, a \in Bounds, b \in Bounds, st \in Steps :
          LET x == StepSliceSeq(R(w), a, b, st) IN
          /\ Len(x) <= Len(w)
          /\ (Len(x) > 0 => \E s0 \in 0..(Len(w) - 1) : \A i \in 1..Len(x) : s0 + (i - 1) * st \in 0..(Len(w) - 1) /\ x[i] = w[s0 + (i - 1) * st + 1])
\* taking every k-th letter of every k'-th letter is taking every (k k')-th letter
ASSUME \A w \in W, st \in {1, 2}, st2 \in {1, 2} :
          StepSliceSeq(R(StepSliceSeq(R(w), None, None, st)), None, None, st2) = StepSliceSeq(R(w), None, None, st * st2)
VARIABLE dummy
Init == dummy = 0
Next == UNCHANGED dummy
=============================================================================
