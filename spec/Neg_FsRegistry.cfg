INIT Init
NEXT Next
CONSTANTS
 CaseInsensitiveListing = TRUE
INVARIANT C20_ListingLookupCoherent
CHECK_DEADLOCK FALSE
