INIT Init
NEXT Next
CONSTANTS
 G = 2
 Scale = 1
INVARIANT C01_ProductIsFormula
CHECK_DEADLOCK FALSE
