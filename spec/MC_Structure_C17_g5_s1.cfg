INIT Init
NEXT Next
CONSTANTS
 G = 5
 Scale = 1
INVARIANT C17_Total
CHECK_DEADLOCK FALSE
