-------------------------- MODULE CircularRecord --------------------------
(* The circular record algebra (moclo/record.py: CircularRecord) - C13, C14, C15.

   A record is  [seq, tag, feats, track, meta]:
     seq    the letters;
     tag    ghost: the identity of every nucleotide (+i = i-th nucleotide of the
            record the behaviour started from, -i = the same nucleotide read on
            the other strand), which is what "attached to the same nucleotides"
            means;
     feats  features  [lab, src, parts], a part being [st, idx]: strand (1, -1, or 0
            for unstranded) and the 0-based positions it covers, in 5'->3' reading
            order of its strand - the DENOTATION of a location, so that compound vs
            simple and past-the-end coordinates are mere representation;
     track  one per-letter annotation (a value per position);
     meta   identifiers / annotations token.
   Operations are specified by what they do to denotations.                  *)
EXTENDS DNA, TLC

N(r) == Len(r.seq)
WholeTurn(r, p) == Len(p.idx) = N(r)
Asc(S)  == LET RECURSIVE f(_) f(T) == IF T = {} THEN << >> ELSE <<Min(T)>> \o f(T \ {Min(T)}) IN f(S)
\* canonical form of a part: whole turns have no phase; unstranded parts have no direction
Canon(n, p) ==
  IF Len(p.idx) = n THEN [st |-> p.st, idx |-> IF p.st = -1 THEN [i \in 1..n |-> n - i] ELSE [i \in 1..n |-> i - 1]]
  ELSE IF p.st = 0 THEN [st |-> 0, idx |-> Asc({p.idx[i] : i \in 1..Len(p.idx)})]
  ELSE p
RotPart(n, p, k) == Canon(n, [st |-> p.st,  idx |-> [i \in 1..Len(p.idx) |-> (p.idx[i] + k) % n]])
RcPart(n, p)     == Canon(n, [st |-> -p.st, idx |-> [i \in 1..Len(p.idx) |-> n - 1 - p.idx[i]]])
RotFeat(n, f, k) == [f EXCEPT !.parts = [j \in 1..Len(f.parts) |-> RotPart(n, f.parts[j], k)]]
RcFeat(n, f)     == [f EXCEPT !.parts = [j \in 1..Len(f.parts) |-> RcPart(n, f.parts[j])]]

\* right rotation by k (any integer): the last k letters move to the front
RotRec(r, k) ==
  LET n == N(r) IN
  IF n = 0 THEN r ELSE
  [r EXCEPT !.seq = Rot(r.seq, k), !.tag = Rot(r.tag, k), !.track = Rot(r.track, k),
            !.feats = [j \in 1..Len(r.feats) |-> RotFeat(n, r.feats[j], k % n)]]
\* reverse complement: letters complemented and reversed, strands flipped; the per-letter
\* annotation is reversed with the letters
RcRec(r) ==
  LET n == N(r) IN
  [r EXCEPT !.seq = RC(r.seq), !.tag = [i \in 1..n |-> -r.tag[n + 1 - i]],
            !.track = IF r.track = << >> THEN << >> ELSE [i \in 1..n |-> r.track[n + 1 - i]],
            !.feats = [j \in 1..Len(r.feats) |-> RcFeat(n, r.feats[j])]]

\* ---- what a feature denotes -------------------------------------------------
Den(r, p)   == [i \in 1..Len(p.idx) |-> (IF p.st = -1 THEN -1 ELSE 1) * r.tag[p.idx[i] + 1]]
DenSet(r, p) == {r.tag[p.idx[i] + 1] : i \in 1..Len(p.idx)} \cup {-r.tag[p.idx[i] + 1] : i \in 1..Len(p.idx)}
Spell(r, p) == [i \in 1..Len(p.idx) |-> IF p.st = -1 THEN Comp(r.seq[p.idx[i] + 1]) ELSE r.seq[p.idx[i] + 1]]
\* part q of record b is the image of part p of record a (same nucleotides, same reading)
SamePart(a, p, b, q) ==
  /\ (p.st = 0) = (q.st = 0)
  /\ IF Len(p.idx) = N(a) \/ p.st = 0 THEN Len(p.idx) = Len(q.idx) /\ DenSet(a, p) = DenSet(b, q)
     ELSE Den(a, p) = Den(b, q)
\* feature g of b is the image of feature f of a (parts as a bag: their order is representation)
SameFeature(a, f, b, g) ==
  /\ f.lab = g.lab /\ Len(f.parts) = Len(g.parts)
  /\ \A i \in 1..Len(f.parts) : \E j \in 1..Len(g.parts) : SamePart(a, f.parts[i], b, g.parts[j])
  /\ \A j \in 1..Len(g.parts) : \E i \in 1..Len(f.parts) : SamePart(a, f.parts[i], b, g.parts[j])
FeaturesFollow(a, b) == /\ Len(a.feats) = Len(b.feats)
                        /\ \A j \in 1..Len(a.feats) : SameFeature(a, a.feats[j], b, b.feats[j])
\* the per-letter value attached to a nucleotide stays attached to it
TrackFollows(a, b) == \A i \in 1..N(a) : \E j \in 1..N(b) : (b.tag[j] = a.tag[i] \/ b.tag[j] = -a.tag[i]) /\ b.track[j] = a.track[i]

\* ---- C15: the circle is never a line ------------------------------------------
Contains(r, q) == OccursCirc(q, r.seq)
\* Python slice bounds
NormIdx(i, n) == IF i < 0 THEN (IF n + i < 0 THEN 0 ELSE n + i) ELSE (IF i > n THEN n ELSE i)
SliceSeq(r, a, b) == LinSlice(r.seq, NormIdx(a, N(r)), NormIdx(b, N(r)))
\* Python extended slices w[a:b:st]: a bound is [none |-> BOOLEAN, v |-> Int], st # 0
ClampIdx(i, n, st) == IF i < 0 THEN (IF i + n < 0 THEN (IF st < 0 THEN -1 ELSE 0) ELSE i + n)
                      ELSE (IF i >= n THEN (IF st < 0 THEN n - 1 ELSE n) ELSE i)
StepSliceSeq(r, a, b, st) ==
  LET n     == N(r)
      start == IF a.none THEN (IF st < 0 THEN n - 1 ELSE 0) ELSE ClampIdx(a.v, n, st)
      stop  == IF b.none THEN (IF st < 0 THEN -1 ELSE n) ELSE ClampIdx(b.v, n, st)
      cnt   == IF st > 0 THEN (IF stop > start THEN (stop - start + st - 1) \div st ELSE 0)
               ELSE (IF start > stop THEN (start - stop - st - 1) \div (-st) ELSE 0)
  IN [i \in 1..cnt |-> r.seq[start + (i - 1) * st + 1]]
=============================================================================
