INIT Init
NEXT Next
CONSTANTS
 Len0 = 5
 MaxDepth = 1
 TrackShiftLeft = FALSE
 TwoParts = TRUE
INVARIANT C13_GroupAction
INVARIANT C13_FeaturesFollow
INVARIANT C13_TrackFollows
CHECK_DEADLOCK FALSE
