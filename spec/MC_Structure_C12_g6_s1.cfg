INIT Init
NEXT Next
CONSTANTS
 G = 6
 Scale = 1
INVARIANT C12_StrandSym
CHECK_DEADLOCK FALSE
