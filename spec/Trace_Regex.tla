---------------------------- MODULE Trace_Regex ----------------------------
(* Implementation traces of DNARegex.search / SeqMatch against DNARegex.tla.  (C16) *)
EXTENDS DNARegex, TraceBase

VARIABLE l
vars == <<l>>

\* ---- Search: one call of DNARegex(p).search(target, pos, endpos, linear) ----
\* e.toks, e.seq, e.circ, e.pos, e.endpos ; e.res = [ok, s, e, spans, groups]
\* spans[g], groups[g] for g = 1 .. G+1 : index 1 is the whole match (group 0)
SearchFails(e) ==
  LET n   == Len(e.seq)
      x   == Search(e.toks, e.seq, e.pos, e.endpos, e.circ)
      r   == e.res
      dom == IsNucWord(e.seq)
      P(name) == IF dom THEN "C16:" \o name ELSE "X:Regex" \o name
  IN  IF r.ok # x.ok THEN {P("Leftmost")}
      ELSE IF ~r.ok THEN {}
      ELSE LET G   == Len(r.spans)
               sp  == Spans(e.toks, x.m)
           IN Chk(P("Leftmost"), r.s = x.s)
              \cup Chk(P("OneTurn"), r.e - r.s <= n /\ r.s < n)
              \cup Chk(P("LinearNeverWraps"), e.circ \/ r.e <= n)
              \cup Chk(P("MatchSpan"), r.s # x.s \/ (/\ r.e = x.e
                                                     /\ G = Len(sp) + 1
                                                     /\ r.spans[1] = <<x.s, x.e>>
                                                     /\ \A g \in 1..Len(sp) : r.spans[g + 1] = sp[g]))
              \cup Chk(P("GroupIsMatchedText"),
                       /\ Len(r.groups) = G
                       /\ \A g \in 1..G : r.groups[g] = GroupText(e.seq, r.spans[g][1], r.spans[g][2]))

\* ---- Letter: the 15 x 4 x 2 table, one pattern letter against one target letter ----
LetterFails(e) ==
  IF Upper(e.x) \in Nuc
  THEN Chk("C16:IUPACExact", e.res = (Upper(e.x) \in IUPAC(e.p)))
  ELSE Chk("X:RegexLetter", e.res = LetterMatches(e.p, e.x))

Fails(e) == CASE e.ev = "Search" -> SearchFails(e)
              [] e.ev = "Letter" -> LetterFails(e)
              [] OTHER -> {"X:UnknownEvent"}

Init == l = 1
Next == /\ l <= Len(Log)
        /\ Report(l, Fails(Log[l]))
        /\ l' = l + 1
=============================================================================
