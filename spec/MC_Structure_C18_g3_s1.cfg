INIT Init
NEXT Next
CONSTANTS
 G = 3
 Scale = 1
INVARIANT C18_CaseInv
CHECK_DEADLOCK FALSE
