------------------------- MODULE Trace_Housekeeping -------------------------
EXTENDS Housekeeping, KitStandards, TraceBase
VARIABLE l
Fails(e) ==
  CASE e.ev = "Resistance" ->
         LET x == Resistance(e.feats) IN
         Chk("X:ResistanceInference", IF x.ok THEN e.exc = "" /\ e.res = x.res ELSE e.exc = "RuntimeError")
    [] e.ev = "CutterCheck" -> Chk("X:CutterCheck", e.exc = CutterCheck(e.kind))
    [] e.ev = "CharacterizeOrder" ->
         LET i == FirstAccepting(e.accepts) IN
         Chk("X:CharacterizeFirstInOrder", IF i = 0 THEN e.exc = "RuntimeError" ELSE e.exc = "" /\ e.chosen = i)
    [] e.ev = "KitSignature" ->
         LET st == Standard(e.name) IN
         IF st = << >> THEN {"S:NoPublishedStandardForClass"}
         ELSE Chk("X:KitSignatureMatchesStandard", e.up = st[1] /\ e.down = st[2])
    [] e.ev = "KitUnit" -> Chk("X:KitUnitChains", UnitChains(e.sigs))
    [] e.ev = "KitComposite" -> Chk("X:KitCompositeSpans", Spans(e.c, e.a, e.b))
    [] e.ev = "ErrorClass" ->
         IF e.name \notin DOMAIN ErrorAncestors THEN {"S:UndocumentedErrorClass"}
         ELSE Chk("X:ErrorLattice", ErrorAncestors[e.name] \subseteq {e.mro[i] : i \in 1..Len(e.mro)})
    [] e.ev = "ErrorPrint" -> Chk("X:ErrorPrintable", e.ok)
    [] OTHER -> {"X:UnknownEvent"}
Init == l = 1
Next == /\ l <= Len(Log)
        /\ Report(l, Fails(Log[l]))
        /\ l' = l + 1
=============================================================================
