------------------------------ MODULE Session ------------------------------
(* Classes, pattern caches and validation histories (C06).

   moclo compiles the structure of a class lazily and stores the compiled
   pattern on the class object; each wrapper instance caches its match.  The
   question of C06 is whether an answer can depend on what was asked before.
   State: for every class, whose structure is stored in its cache slot.
   The constant CacheLookup names the two designs:
     "own"        a class only ever reuses a pattern stored on itself (the design)
     "inherited"  the slot is read through the inheritance chain (the defect found
                  in the pinned tree: a parent validated first lends its pattern
                  to every subclass) - kept as the negative model.                *)
EXTENDS Structure, TLC

CONSTANTS CacheLookup, MaxHist

Enz == [site |-> <<3, 1>>, off |-> 1, ovh |-> 2]
\* a small inheritance forest: generic entry G; typed parts P1, P2 under G; Q under P1 without
\* a structure of its own; R under P2 with another signature; V a generic vector (unrelated branch)
Classes == {"G", "P1", "P2", "Q", "R", "V"}
Parent(c) == CASE c = "P1" -> "G" [] c = "P2" -> "G" [] c = "Q" -> "P1" [] c = "R" -> "P2" [] OTHER -> "none"
RECURSIVE Mro(_)
Mro(c) == IF c = "none" THEN << >> ELSE <<c>> \o Mro(Parent(c))
Role(c) == IF c = "V" THEN "vector" ELSE "module"
\* the structure a class declares (what structure() returns when called on it)
StructureOf(c) == CASE c = "G"  -> GenericModule(Enz)
                    [] c = "P1" -> PartModule(Enz, <<1, 1>>, <<15, 2>>)       \* (AA)...(NC)
                    [] c = "P2" -> PartModule(Enz, <<2, 5>>, <<4, 4>>)        \* (CR)...(TT)
                    [] c = "Q"  -> PartModule(Enz, <<1, 1>>, <<15, 2>>)       \* inherited from P1
                    [] c = "R"  -> PartModule(Enz, <<2, 5>>, <<3, 2>>)        \* a subclass of P2 with a signature of its own
                                                                          \* (the replay harness gives it P2's NAME on purpose)
                    [] c = "V"  -> GenericVector(Enz)
Mk(o5, t, o3, b) == Enz.site \o <<1>> \o o5 \o t \o o3 \o <<1>> \o RC(Enz.site) \o b
Records == << Mk(<<1, 1>>, <<1, 4>>, <<3, 2>>, <<1, 2>>),            \* member of P1 (and Q, G)
              Rot(Mk(<<2, 1>>, <<4, 1, 4>>, <<4, 4>>, << >>), 3),     \* member of P2 (and G), origin inside
              Mk(<<2, 2>>, <<1, 4>>, <<1, 2>>, <<2>>),               \* member of G only
              <<1, 2, 3, 4, 1, 2, 3, 1>>,                            \* not a module at all
              <<4, 2>> \o <<1>> \o RC(Enz.site) \o <<1>> \o Enz.site \o <<1>> \o <<1, 3>> \o <<1, 2, 1>> >>  \* a vector
Answer(k, role, r) == LET t == Typing(StructureOf(k), Enz, role, Records[r]) IN <<t.ok, t.up, t.down>>

VARIABLES cache,   \* class -> class whose structure is stored on it, or "none"
          hist,    \* the calls made so far  <<class, record>>
          obs      \* answer of the last call
vars == <<cache, hist, obs>>

Init == cache = [c \in Classes |-> "none"] /\ hist = << >> /\ obs = << >>

\* whose pattern does class c use now?
Lookup(c) ==
  IF CacheLookup = "own" THEN (IF cache[c] # "none" THEN cache[c] ELSE "none")
  ELSE LET m == Mro(c)
           hit == {i \in 1..Len(m) : cache[m[i]] # "none"}
       IN IF hit = {} THEN "none" ELSE cache[m[Min(hit)]]

Validate(c, r) ==
  /\ Len(hist) < MaxHist
  /\ LET k == Lookup(c) IN
       IF k = "none"
       THEN cache' = [cache EXCEPT ![c] = c] /\ obs' = Answer(c, Role(c), r)
       ELSE UNCHANGED cache /\ obs' = Answer(k, Role(c), r)
  /\ hist' = Append(hist, <<c, r>>)
Next == \E c \in Classes, r \in 1..Len(Records) : Validate(c, r)

\* C06: every answer is the answer of the class that was asked, whatever happened before
C06_VerdictIndependent ==
  hist # << >> => LET h == hist[Len(hist)] IN obs = Answer(h[1], Role(h[1]), h[2])
C06_CacheBelongsToClass == \A c \in Classes : cache[c] \in {"none", c}
\* the concrete world, printed once so that the replay harness builds the very same one
ASSUME PrintT(<<"WORLD", [enz |-> Enz, records |-> Records,
                         classes |-> [c \in Classes |-> [toks |-> StructureOf(c), role |-> Role(c), parent |-> Parent(c)]]]>>)
\* non-vacuity: the records really separate the classes
ASSUME /\ Answer("P1", "module", 1)[1] /\ ~Answer("P2", "module", 1)[1] /\ Answer("G", "module", 1)[1]
       /\ Answer("P2", "module", 2)[1] /\ ~Answer("P1", "module", 2)[1]
       /\ Answer("G", "module", 3)[1] /\ ~Answer("P1", "module", 3)[1] /\ ~Answer("P2", "module", 3)[1]
       /\ ~Answer("G", "module", 4)[1] /\ Answer("V", "vector", 5)[1]
=============================================================================
