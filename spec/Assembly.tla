------------------------------ MODULE Assembly ------------------------------
(* The Golden Gate assembly of moclo (core/_assembly.py: AssemblyManager) at the level
   of the OVERHANG GRAPH: overhangs are symbols with a reverse-complement involution,
   a module is [s, e] (start / end overhang), the vector is [s, e] (s = upstream
   overhang, where the chain must end; e = downstream overhang, where it starts).

   Two descriptions are given and compared by TLC:
   * declarative  Expected : what must come out, as a function of the graph only (C03);
   * implementation-shaped step machine: one action per call the implementation makes
     into the objects it was given (vector check, map insertion per module, reverse-
     complement scan, citation de-referencing per input, pop-based walk, re-referencing),
     each of which is also a crash point (Fault) - for C07's "pure even when it fails".  *)
EXTENDS Integers, Sequences, FiniteSets, TLC

CONSTANTS Ovh,                \* set of overhang symbols
          RCf,                \* involution Ovh -> Ovh (reverse complement); fixed points = palindromes
          MaxMods,
          RestoreOnFailure,   \* TRUE = the design (inputs re-referenced on every exit); FALSE = negative model
          Faults,             \* set of step numbers at which an exception may be injected (0 = none)
          PalSelf             \* FALSE = the design; TRUE = negative model: a palindromic start overhang is taken for a
                              \* duplicate of itself (defect D9 of the pinned tree)
RC(o) == RCf[o]
ModT == [s : Ovh, e : Ovh]

VARIABLES pc, vec, mods, map, nxt, chain, outcome, deref, step, faultAt
vars == <<pc, vec, mods, map, nxt, chain, outcome, deref, step, faultAt>>
N == Len(mods)
Elems == 1..(N + 1)          \* the inputs: modules 1..N and the vector (N + 1)

\* ---------- declarative expectation (C03) ----------
DupStart == \E i, j \in 1..N : i # j /\ mods[i].s = mods[j].s
RcStart  == \E i, j \in 1..N : i # j /\ mods[i].s = RC(mods[j].s)   \* two DIFFERENT modules (a palindromic overhang is
                                                                     \* its own reverse complement: that is one module, not two)
RECURSIVE Walk(_, _, _)
Walk(o, used, acc) ==                  \* <<"ok", chain>> or <<"missing", stall overhang>>
  IF o = vec.s THEN <<"ok", acc>>
  ELSE IF \E i \in 1..N : mods[i].s = o /\ i \notin used
       THEN LET i == CHOOSE i \in 1..N : mods[i].s = o /\ i \notin used
            IN Walk(mods[i].e, used \cup {i}, Append(acc, i))
       ELSE <<"missing", o>>
Expected ==
  IF vec.s = vec.e THEN <<"InvalidSequence">>
  ELSE IF DupStart \/ RcStart THEN <<"DuplicateModules">>
  ELSE LET w == Walk(vec.e, {}, << >>) IN
       IF w[1] = "ok" THEN <<"product", w[2], {i \in 1..N : \A j \in 1..Len(w[2]) : w[2][j] # i}>>   \* chain, unused
       ELSE <<"MissingModule", w[2]>>

\* ---------- step machine ----------
AnyO == CHOOSE o \in Ovh : TRUE
Init == /\ pc = "build" /\ vec = [s |-> AnyO, e |-> AnyO] /\ mods = << >>
        /\ map = << >> /\ nxt = AnyO /\ chain = << >> /\ outcome = << >> /\ deref = {} /\ step = 0 /\ faultAt = 0

\* enumeration staged: vector first, then the module sequence (spread over the workers)
BuildVec == /\ pc = "build" /\ \E v \in ModT : vec' = v
            /\ pc' = "build2" /\ UNCHANGED <<mods, map, nxt, chain, outcome, deref, step, faultAt>>
BuildMods == /\ pc = "build2"
             /\ \E k \in 1..MaxMods : \E ms \in [1..k -> ModT] : mods' = ms
             /\ \E f \in Faults : faultAt' = f
             /\ pc' = "check" /\ UNCHANGED <<vec, map, nxt, chain, outcome, deref, step>>

Fail(err) == /\ outcome' = err
             /\ pc' = IF RestoreOnFailure /\ deref # {} THEN "reref" ELSE "done"
Tick == step' = step + 1
Faulted == faultAt # 0 /\ step + 1 = faultAt

CheckVector == /\ pc = "check" /\ Tick
               /\ IF Faulted THEN Fail(<<"Fault">>)
                  ELSE IF vec.s = vec.e THEN Fail(<<"InvalidSequence">>)
                  ELSE pc' = "map" /\ UNCHANGED outcome
               /\ UNCHANGED <<vec, mods, faultAt, map, nxt, chain, deref>>

MapHas(o) == \E j \in 1..Len(map) : map[j][1] = o
MapIdx(o) == CHOOSE j \in 1..Len(map) : map[j][1] = o
MapInsert == /\ pc = "map" /\ Tick
             /\ IF Faulted THEN Fail(<<"Fault">>) /\ UNCHANGED map
                ELSE IF Len(map) = N THEN pc' = "rc" /\ UNCHANGED <<map, outcome>>
                ELSE LET k == Len(map) + 1 IN
                     IF MapHas(mods[k].s) THEN Fail(<<"DuplicateModules">>) /\ UNCHANGED map
                     ELSE map' = Append(map, <<mods[k].s, k>>) /\ UNCHANGED <<pc, outcome>>
             /\ UNCHANGED <<vec, mods, faultAt, nxt, chain, deref>>

RcCheck == /\ pc = "rc" /\ Tick
           /\ IF \E j, k \in 1..Len(map) : (PalSelf \/ j # k) /\ map[k][1] = RC(map[j][1]) THEN Fail(<<"DuplicateModules">>)
              ELSE pc' = "deref" /\ UNCHANGED outcome
           /\ UNCHANGED <<vec, mods, map, chain, faultAt, deref, nxt>>

Deref == /\ pc = "deref" /\ Tick
         /\ IF Faulted THEN Fail(<<"Fault">>) /\ UNCHANGED <<deref, nxt>>
            ELSE IF deref = Elems THEN pc' = "walk" /\ nxt' = vec.e /\ UNCHANGED <<outcome, deref>>
            ELSE LET e == CHOOSE e \in Elems \ deref : \A f \in Elems \ deref : e <= f IN
                 deref' = deref \cup {e} /\ UNCHANGED <<pc, outcome, nxt>>
         /\ UNCHANGED <<vec, mods, map, chain, faultAt>>

WalkStep == /\ pc = "walk" /\ Tick
            /\ IF Faulted THEN Fail(<<"Fault">>) /\ UNCHANGED <<map, nxt, chain>>
               ELSE IF nxt = vec.s THEN
                      /\ outcome' = <<"product", chain, {map[j][2] : j \in 1..Len(map)}>>
                      /\ pc' = "reref" /\ UNCHANGED <<map, nxt, chain>>
               ELSE IF MapHas(nxt) THEN
                      LET j == MapIdx(nxt)  i == map[j][2] IN
                      /\ map' = [x \in 1..(Len(map) - 1) |-> IF x < j THEN map[x] ELSE map[x + 1]]
                      /\ chain' = Append(chain, i) /\ nxt' = mods[i].e /\ UNCHANGED <<pc, outcome>>
               ELSE Fail(<<"MissingModule", nxt>>) /\ UNCHANGED <<map, nxt, chain>>
            /\ UNCHANGED <<vec, mods, deref, faultAt>>

Reref == /\ pc = "reref" /\ Tick
         /\ IF deref = {} THEN pc' = "done" /\ UNCHANGED deref
            ELSE LET e == CHOOSE e \in deref : \A f \in deref : e <= f IN deref' = deref \ {e} /\ UNCHANGED pc
         /\ UNCHANGED <<vec, mods, map, nxt, chain, outcome, faultAt>>

Next == BuildVec \/ BuildMods \/ CheckVector \/ MapInsert \/ RcCheck \/ Deref \/ WalkStep \/ Reref

\* ---------- properties ----------
Done == pc = "done"
C03_OutcomeIsExpected == (Done /\ faultAt = 0) =>
   LET x == Expected IN
     /\ outcome[1] = x[1]
     /\ outcome[1] = "product" => outcome[2] = x[2] /\ outcome[3] = x[3]     \* same chain, unused exactly the leftover
     /\ outcome[1] = "MissingModule" => outcome[2] = x[2]                     \* names the stall overhang
C03_EachModuleOnce == (Done /\ outcome[1] = "product") =>
   \A a, b \in 1..Len(outcome[2]) : a # b => outcome[2][a] # outcome[2][b]
\* the expectation depends on the multiset of modules only: any permutation of the arguments
\* gives the same chain of module VALUES and the same leftover values
ChainVals(ms, ch) == [j \in 1..Len(ch) |-> ms[ch[j]]]
C03_OrderIndependent == (pc = "check" /\ N >= 2 /\ Expected[1] = "product") =>
   LET sw == [mods EXCEPT ![1] = mods[2], ![2] = mods[1]]       \* adjacent transposition generates all permutations
       ch == Expected[2]
       ch2 == [j \in 1..Len(ch) |-> IF ch[j] = 1 THEN 2 ELSE IF ch[j] = 2 THEN 1 ELSE ch[j]]
   IN ChainVals(mods, ch) = ChainVals(sw, ch2)
\* C07: whatever happens - product, error, injected fault - no input stays de-referenced
C07_InputsRestored == Done => deref = {}
\* C19: replacing a used module by one with the same overhangs keeps the outcome and the chain
C19_Interchange == (Done /\ faultAt = 0 /\ outcome[1] = "product") =>
   \A j \in 1..Len(outcome[2]) : mods[outcome[2][j]].s = (IF j = 1 THEN vec.e ELSE mods[outcome[2][j - 1]].e)
=============================================================================
