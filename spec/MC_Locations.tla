----------------------------- MODULE MC_Locations -----------------------------
(* Small-world theorems about location arithmetic: every one- and two-part location (either
   strand, origin-spanning in both representations) on records of length N, every fragment
   (start a, length L), every product offset.                                         *)
EXTENDS Locations, TLC
CONSTANTS N, TwoParts
VARIABLES parts, a, L
vars == <<parts, a, L>>
PartSet == {[s |-> s, e |-> e, st |-> st] : s \in 0..(N - 1), e \in 1..(2 * N - 1), st \in {1, -1}}
Well(p) == p.s < p.e /\ p.e - p.s <= N
Init == parts = << >> /\ a = 0 /\ L = 0
Choose == /\ parts = << >>
          /\ \E p \in {q \in PartSet : Well(q)} : \E two \in (IF TwoParts THEN BOOLEAN ELSE {FALSE}) :
               \E p2 \in {q \in PartSet : Well(q) /\ q.st = p.st} :
                 parts' = IF two THEN <<p, p2>> ELSE <<p>>
          /\ a' = 0 /\ L' = 0
Frag == /\ parts # << >> /\ L = 0
        /\ \E x \in 0..(N - 1), len \in 1..(N - 1) : a' = x /\ L' = len     \* a retained fragment is a proper part of the circle
        /\ UNCHANGED parts
Next == Choose \/ Frag
Ready == L > 0
\* rotation moves every part onto the same nucleotides (C13 FeaturesFollow in coordinates)
C13_RotationPreservesDenotation ==
  parts # << >> => \A k \in 1..(N - 1) :
     Denote(RotateLoc(parts, k, N), N) = [i \in 1..Len(parts) |-> [j \in 1..Len(DenotePart(parts[i], N)) |-> (DenotePart(parts[i], N)[j] + k) % N]]
\* rotation composes: coordinates stay in the form the next rotation expects
C13_RotationKeepsForm ==
  parts # << >> => \A k \in 1..(N - 1) : \A i \in 1..Len(parts) :
     LET q == RotatePart(parts[i], k, N) IN 0 <= q.s /\ q.s < N /\ q.s < q.e /\ q.e - q.s = parts[i].e - parts[i].s
\* C08: a feature survives the extraction iff it lies entirely inside the retained fragment ...
C08_KeptIffInside ==
  Ready => (Transport(parts, N, a, L, 0).kept <=> (InsideFragment(parts, N, a, L)
                                                      \* whole-fragment-or-more features wrap onto themselves:
                                                      /\ \A i \in 1..Len(parts) : parts[i].e - parts[i].s <= L))
\* ... and then denotes, in the product, the images of the same nucleotides (any offset, any product length)
C08_ImageDenotesSameNucleotides ==
  Ready => \A off \in {0, 3} : LET t == Transport(parts, N, a, L, off)  P == off + L + 2 IN
     t.kept => Denote(t.parts, P) = ImageDenotation(parts, N, a, off, P)
=============================================================================
