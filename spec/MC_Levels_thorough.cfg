INIT Init
NEXT Next
CONSTANTS
 Scale = 2
INVARIANT C11_ProductIsNextModule
CHECK_DEADLOCK FALSE
