-------------------------- MODULE MC_Housekeeping --------------------------
(* find_resistance as a fold over the feature table: small-scope theorems. *)
EXTENDS Housekeeping, TLC
Labels == {"KanR", "CmR", "AmpR", "ori", "GFP"}
VARIABLE feats
Init == feats = << >>
Next == /\ Len(feats) < 3
        /\ \E k \in 0..2 : \E ls \in [1..k -> Labels] : feats' = Append(feats, ls)
\* the answer only depends on the first feature that carries a resistance label
PrefixIrrelevant == \A ls \in {<< >>, <<"ori">>, <<"GFP", "ori">>} : Resistance(<<ls>> \o feats) = Resistance(feats)
Decides == Resistance(feats).ok => \E i \in 1..Len(feats) : \E j \in 1..Len(feats[i]) : Antibiotic(feats[i][j]) = Resistance(feats).res
NoneMeansError == (\A i \in 1..Len(feats) : \A j \in 1..Len(feats[i]) : Antibiotic(feats[i][j]) = "") => ~Resistance(feats).ok
=============================================================================
