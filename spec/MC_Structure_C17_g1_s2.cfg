INIT Init
NEXT Next
CONSTANTS
 G = 1
 Scale = 2
INVARIANT C17_Total
CHECK_DEADLOCK FALSE
