INIT Init
NEXT Next
CONSTANTS
 MaxAdds = 4
INVARIANT C20_KeysOnce
INVARIANT C20_UnionOfMembers
INVARIANT C20_FirstWins
INVARIANT C20_AddingTwiceChangesNothing
INVARIANT C20_LiveMemberCovered
CHECK_DEADLOCK FALSE
