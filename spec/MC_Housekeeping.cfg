INIT Init
NEXT Next
INVARIANT PrefixIrrelevant
INVARIANT Decides
INVARIANT NoneMeansError
CHECK_DEADLOCK FALSE
