INIT Init
NEXT Next
CONSTANTS
 G = 4
 Scale = 1
INVARIANT C18_CaseInv
CHECK_DEADLOCK FALSE
