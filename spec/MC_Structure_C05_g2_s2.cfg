INIT Init
NEXT Next
CONSTANTS
 G = 2
 Scale = 2
INVARIANT C05_PartIffGenericAndSignature
CHECK_DEADLOCK FALSE
