---------------------------- MODULE MC_Structure ----------------------------
(* Small-world theorems about typing (C02, C04, C05, C12, C17, C18), checked by
   TLC on every plasmid of a constructed world and every rotation of it:
   the generic module / vector typing is rotation invariant, strand symmetric,
   case insensitive, reports true restriction fragments, partitions a vector
   into placeholder and target, and a signature-typed part accepts exactly the
   generic members whose overhangs match the signature.                       *)
EXTENDS Structure, TLC

CONSTANTS G,        \* which miniature enzyme geometry
          Scale     \* 1 = quick world, 2 = thorough world

Geoms == << [site |-> <<3, 1>>, off |-> 1, ovh |-> 2],      \* GA N ^ NN _
            [site |-> <<3>>,    off |-> 1, ovh |-> 1],      \* G  N ^ N _
            [site |-> <<2, 1>>, off |-> 2, ovh |-> 1],      \* CA NN ^ N _
            [site |-> <<3, 1>>, off |-> 1, ovh |-> 3],      \* GA N ^ NNN _
            [site |-> <<3, 3, 1>>, off |-> 1, ovh |-> 2],   \* GGA N ^ NN _
            [site |-> <<2, 12>>, off |-> 1, ovh |-> 2] >>   \* CD N ^ NN _   (growth: an ambiguity code in the site, as LpnPI CCDG)
Enz == Geoms[G]
ModToks == GenericModule(Enz)
VecToks == GenericVector(Enz)

O5Set == Words(Nuc, Enz.ovh)
O3Set == IF Scale = 1 THEN {o \in Words(Nuc, Enz.ovh) : o[1] \in {1, 2}} ELSE Words(Nuc, Enz.ovh)
TSet  == IF Scale = 1 THEN Words({1, 4}, 2) ELSE Words({1, 4}, 2) \cup Words({1, 2, 4}, 3)
BSet  == IF Scale = 1 THEN {<< >>, <<1, 2>>, <<3, 1>>} ELSE {<< >>, <<1, 2>>, <<3, 1>>, <<2, 2, 4>>, <<4, 2, 1, 3>>}
PSet  == IF Scale = 1 THEN {<< >>, <<4>>} ELSE {<< >>, <<4>>, <<1, 3>>}
VBSet == IF Scale = 1 THEN {<<1, 2>>, <<1, 4, 3>>} ELSE {<<1, 2>>, <<2, 1>>, <<1, 4, 3>>, <<4, 4, 2, 1>>}
Spacer == [i \in 1..Enz.off |-> 1]

\* the concrete spellings of the recognition site (the site itself unless it contains ambiguity codes)
SiteInst == {x \in Words(Nuc, Len(Enz.site)) : \A i \in 1..Len(x) : x[i] \in IUPAC(Enz.site[i])}
MkMod(sF, sR, o5, t, o3, b) == sF \o Spacer \o o5 \o t \o o3 \o Spacer \o RC(sR) \o b
MkVec(sF, sR, oD, p, oU, b) == oD \o Spacer \o RC(sR) \o p \o sF \o Spacer \o oU \o b

VARIABLES ph, fr, w, mut
vars == <<ph, fr, w, mut>>

Init == ph = "init" /\ fr = << >> /\ w = << >> /\ mut = FALSE
ChooseFrame == /\ ph = "init"
               /\ \E k \in {"module", "vector"}, o5 \in O5Set, o3 \in O3Set, sF \in SiteInst, sR \in SiteInst : fr' = <<k, o5, o3, sF, sR>>
               /\ ph' = "frame" /\ UNCHANGED <<w, mut>>
ChooseFill == /\ ph = "frame"
              /\ IF fr[1] = "module"
                 THEN \E t \in TSet, b \in BSet : w' = MkMod(fr[4], fr[5], fr[2], t, fr[3], b)
                 ELSE \E p \in PSet, b \in VBSet : w' = MkVec(fr[4], fr[5], fr[2], p, fr[3], b)
              /\ ph' = "rot" /\ UNCHANGED <<fr, mut>>
Rotate == /\ ph = "rot" /\ w' = Rot(w, 1) /\ UNCHANGED <<ph, fr, mut>>
\* not well-formed records: one point mutation anywhere (Scale 2 only, to keep the quick world small)
Mutate == /\ ph = "rot" /\ ~mut /\ Scale = 2 /\ fr[2][1] = 1 /\ fr[3][1] = 2
          /\ \E i \in 1..Len(w), x \in Nuc : x # w[i] /\ w' = [w EXCEPT ![i] = x]
          /\ mut' = TRUE /\ UNCHANGED <<ph, fr>>
Next == ChooseFrame \/ ChooseFill \/ Rotate \/ Mutate

Built == ph = "rot"
Pub(t) == [ok |-> t.ok, up |-> t.up, down |-> t.down, tgt |-> t.tgt, ph |-> t.ph]
TM(x) == Typing(ModToks, Enz, "module", x)
TV(x) == Typing(VecToks, Enz, "vector", x)

C02_RotInv ==
  Built => /\ UniqueStart(ModToks, w) => Pub(TM(w)) = Pub(TM(Rot(w, 1)))
           /\ UniqueStart(VecToks, w) => Pub(TV(w)) = Pub(TV(Rot(w, 1)))
C12_StrandSym ==
  (Built /\ TwoSites(w, Enz)) =>
     LET k == Enz.ovh
         sym(a, b) == /\ a.ok = b.ok
                      /\ a.ok => /\ b.up = RC(a.down) /\ b.down = RC(a.up) /\ Len(a.tgt) = Len(b.tgt)
                                 /\ LinSlice(b.tgt, k, Len(b.tgt)) = RC(LinSlice(a.tgt, k, Len(a.tgt)))
     IN sym(TM(w), TM(RC(w))) /\ sym(TV(w), TV(RC(w)))
C04_DigestAgreement ==
  Built => /\ LET a == TM(w) IN a.ok => DigestWitness(w, Enz, "module", a.up, a.down, a.tgt, << >>)
                                        /\ NoInnerCut(w, Enz, a.tgt)
           /\ LET a == TV(w) IN a.ok => DigestWitness(w, Enz, "vector", a.up, a.down, a.tgt, a.ph)
\* on well-formed plasmids typing coincides with the canonic decomposition of the docs
C04_IsCanonicDecomposition ==
  (Built /\ ~mut /\ TwoSites(w, Enz)) =>
     /\ LET a == TM(w)  d == DecompModule(w, Enz) IN
          (a.ok /\ d.ok) => (a.up = d.up /\ a.down = d.down /\ a.tgt = d.tgt)
     /\ LET a == TV(w)  d == DecompVector(w, Enz) IN
          (a.ok /\ d.ok) => (a.up = d.up /\ a.down = d.down /\ a.tgt = d.tgt /\ a.ph = d.ph)
\* the constructed plasmid is recognised for what it is (non-vacuity of the world)
C04_ConstructedIsAccepted ==
  (Built /\ ~mut /\ TwoSites(w, Enz)) =>
     IF fr[1] = "module" THEN TM(w).ok /\ TM(w).up = fr[2] /\ TM(w).down = fr[3]
     ELSE TV(w).ok /\ TV(w).down = fr[2] /\ TV(w).up = fr[3]
C18_CaseInv ==
  Built => LET lw == LowerW(w)
               mixed == [i \in 1..Len(w) |-> IF i % 3 = 1 THEN Lower(w[i]) ELSE w[i]]
               same(a, b) == a.ok = b.ok /\ UpperW(a.up) = UpperW(b.up) /\ UpperW(a.down) = UpperW(b.down)
                             /\ UpperW(a.tgt) = UpperW(b.tgt) /\ UpperW(a.ph) = UpperW(b.ph)
           IN same(TM(w), TM(lw)) /\ same(TV(w), TV(lw)) /\ same(TM(w), TM(mixed)) /\ same(TV(w), TV(mixed))
\* C05: signatures with one ambiguity pattern each side
Sigs == LET pick == IF Scale = 1 THEN {1, 15, 5} ELSE {1, 2, 15, 5, 8} IN Words(pick, Enz.ovh)
C05_PartIffGenericAndSignature ==
  (Built /\ TwoSites(w, Enz)) =>
     /\ UniqueStart(ModToks, w) =>
          \A su \in Sigs : \A sd \in {[i \in 1..Enz.ovh |-> 15], fr[3], fr[2]} :
             LET p == Typing(PartModule(Enz, su, sd), Enz, "module", w)  g == TM(w) IN
               /\ p.ok = (g.ok /\ SigMatches(su, g.up) /\ SigMatches(sd, g.down))
               /\ p.ok => Pub(p) = Pub(g)
     /\ UniqueStart(VecToks, w) =>
          \A su \in Sigs : \A sd \in {[i \in 1..Enz.ovh |-> 15], fr[3], fr[2]} :
             LET p == Typing(PartVector(Enz, su, sd), Enz, "vector", w)  g == TV(w) IN
               /\ p.ok = (g.ok /\ SigMatches(su, g.up) /\ SigMatches(sd, g.down))
               /\ p.ok => Pub(p) = Pub(g)
\* C17: evaluation is total and yields a Boolean verdict (TLC would stop on an evaluation error)
C17_Total == Built => TM(w).ok \in BOOLEAN /\ TV(w).ok \in BOOLEAN
=============================================================================
