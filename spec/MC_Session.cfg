INIT Init
NEXT Next
CONSTANTS
 CacheLookup = "own"
 MaxHist = 3
INVARIANT C06_VerdictIndependent
INVARIANT C06_CacheBelongsToClass
CHECK_DEADLOCK FALSE
