------------------------------ MODULE Locations ------------------------------
(* Feature locations in COORDINATES, the way the implementation handles them (Biopython
   FeatureLocation / CompoundLocation arithmetic as used by moclo/record.py and by the
   fragment extraction of moclo/core/modules.py, vectors.py), next to what they DENOTE.
   A part is [s, e, st] with 0 <= s < e; e may exceed the record length n (a part that runs
   past the end denotes the positions modulo n - this is what rotation itself produces).
   The theorems (checked by TLC in MC_Locations) say that the coordinate arithmetic of
   rotate -> slice -> shift transports exactly the features lying inside the retained
   fragment, onto the same nucleotides - the model-level content of C08 (and of C13's
   "features follow").                                                            *)
EXTENDS Integers, Sequences, FiniteSets

Min2(a, b) == IF a <= b THEN a ELSE b
Max2(a, b) == IF a >= b THEN a ELSE b
\* positions a part denotes on a circle of length n, in 5'->3' reading order of its strand
DenotePart(p, n) == LET asc == [i \in 1..(p.e - p.s) |-> (p.s + i - 1) % n]
                    IN IF p.st = -1 THEN [i \in 1..Len(asc) |-> asc[Len(asc) + 1 - i]] ELSE asc
Denote(parts, n) == [i \in 1..Len(parts) |-> DenotePart(parts[i], n)]
PosSet(parts, n) == UNION {{DenotePart(parts[i], n)[j] : j \in 1..Len(DenotePart(parts[i], n))} : i \in 1..Len(parts)}

\* ---- CircularRecord.__rshift__ on one part (index already reduced to 1..n-1) -------------
RotatePart(p, k, n) ==
  LET s == p.s + k  e == p.e + k IN
  IF e >= n /\ s >= n THEN LET r == s \div n IN [s |-> s - r * n, e |-> e - r * n, st |-> p.st]
  ELSE [s |-> s, e |-> e, st |-> p.st]
RotateLoc(parts, k, n) == [i \in 1..Len(parts) |-> RotatePart(parts[i], k, n)]

\* ---- SeqRecord slicing [0:L]: a feature is kept iff its extent lies inside, coordinates unchanged -----
ExtentStart(parts) == LET RECURSIVE f(_) f(i) == IF i = 1 THEN parts[1].s ELSE Min2(parts[i].s, f(i - 1)) IN f(Len(parts))
ExtentEnd(parts)   == LET RECURSIVE f(_) f(i) == IF i = 1 THEN parts[1].e ELSE Max2(parts[i].e, f(i - 1)) IN f(Len(parts))
KeptBySlice(parts, L) == ExtentStart(parts) >= 0 /\ ExtentEnd(parts) <= L
\* ---- concatenation: the fragment lands at offset off of the product -----------------------------
ShiftLoc(parts, off) == [i \in 1..Len(parts) |-> [s |-> parts[i].s + off, e |-> parts[i].e + off, st |-> parts[i].st]]

\* ---- the implementation's transport of a feature of a record of length n whose retained fragment
\* starts at position a and has length L, into a product of length P at offset off:
\*     (record << a)[0:L], then shifted by off
Transport(parts, n, a, L, off) ==
  LET k == (n - a) % n                         \* record << a  ==  record >> (-a mod n)
      rot == IF k = 0 THEN parts ELSE RotateLoc(parts, k, n)
  IN IF KeptBySlice(rot, L) THEN [kept |-> TRUE, parts |-> ShiftLoc(rot, off)] ELSE [kept |-> FALSE, parts |-> << >>]

\* ---- what must happen, by denotation (the fragment map of Trace_Assembly) -----------------------
InsideFragment(parts, n, a, L) == \A x \in PosSet(parts, n) : ((x - a) % n) < L
MapPos(x, n, a, off, P) == (off + ((x - a) % n)) % P
ImageDenotation(parts, n, a, off, P) ==
  [i \in 1..Len(parts) |-> [j \in 1..Len(DenotePart(parts[i], n)) |-> MapPos(DenotePart(parts[i], n)[j], n, a, off, P)]]
=============================================================================
