--------------------------- MODULE MC_AssemblyDNA ---------------------------
(* C01 on a small world: for a miniature enzyme, every vector and every chain of one
   or two modules built from the canonical decompositions, EVERY ROTATION of every
   plasmid and both argument orders: the product computed the way the implementation
   does (type each record with the generic structures, walk the start-overhang map,
   concatenate the reported targets, vector last) is the documented closed form
   computed from sites and cuts alone, and its length is the sum of the fragments.  *)
EXTENDS AssemblyDNA, TLC
CONSTANTS G, Scale
Geoms == << [site |-> <<3, 1>>, off |-> 1, ovh |-> 2], [site |-> <<3>>, off |-> 1, ovh |-> 1], [site |-> <<2, 1>>, off |-> 2, ovh |-> 1] >>
Enz == Geoms[G]
Sp == [i \in 1..Enz.off |-> 1]
MkMod(o5, t, o3, b) == Enz.site \o Sp \o o5 \o t \o o3 \o Sp \o RC(Enz.site) \o b
MkVec(oD, p, oU, b) == oD \o Sp \o RC(Enz.site) \o p \o Enz.site \o Sp \o oU \o b
\* fillers avoid the letters that could spell a site, so that every plasmid has exactly two sites
Ov == CASE G = 1 -> << <<1, 1>>, <<2, 1>>, <<2, 2>> >>      \* AA, CA, CC : pairwise non-complementary
        [] G = 2 -> << <<1>>, <<4>>, <<4>> >>               \* A, T (one module only)
        [] G = 3 -> << <<1>>, <<3>>, <<3>> >>               \* A, G (one module only)
X == IF G = 1 THEN 2 ELSE IF G = 2 THEN 4 ELSE 3             \* second filler letter
TSet == IF Scale = 0 THEN {<<1, X>>} ELSE IF Scale = 1 THEN {<<1, X>>, <<X, X, 1>>} ELSE {<<1, X>>, <<X, X, 1>>, <<X, 1, X, 1>>}
Twos == IF G = 1 THEN BOOLEAN ELSE {FALSE}
VARIABLES ph, vec, mods
vars == <<ph, vec, mods>>
Init == ph = "init" /\ vec = << >> /\ mods = << >>
Build == /\ ph = "init"
         /\ \E two \in Twos, t1 \in TSet, t2 \in TSet, b \in (IF Scale = 0 THEN {<<1, X>>} ELSE {<<1, X>>, <<X, 1, 1>>}), p \in (IF Scale = 0 THEN {<<X>>} ELSE {<< >>, <<X>>}) :
              /\ vec' = MkVec(Ov[1], p, IF two THEN Ov[3] ELSE Ov[2], b)
              /\ mods' = IF two THEN <<MkMod(Ov[1], t1, Ov[2], <<1>>), MkMod(Ov[2], t2, Ov[3], << >>)>>
                         ELSE <<MkMod(Ov[1], t1, Ov[2], <<1, X>>)>>
         /\ ph' = "rot"
RotVec == ph = "rot" /\ vec' = Rot(vec, 1) /\ UNCHANGED <<ph, mods>>
RotMod(i) == ph = "rot" /\ mods' = [mods EXCEPT ![i] = Rot(mods[i], 1)] /\ UNCHANGED <<ph, vec>>
Swap == ph = "rot" /\ Len(mods) = 2 /\ mods' = <<mods[2], mods[1]>> /\ UNCHANGED <<ph, vec>>
Next == Build \/ RotVec \/ (\E i \in 1..Len(mods) : RotMod(i)) \/ Swap

\* implementation-shaped: typing by the generic structures
Tm == [i \in 1..Len(mods) |-> Typing(GenericModule(Enz), Enz, "module", mods[i])]
Tv == Typing(GenericVector(Enz), Enz, "vector", vec)
ImplProduct ==
  LET w == WalkW(Tm, Tv.up, Tv.down, {}, << >>) IN
  IF w[1] # "ok" THEN << >> ELSE Concat([j \in 1..Len(w[2]) |-> Tm[w[2][j]].tgt]) \o Tv.tgt
\* declarative: decompositions from sites and cuts
Dm == [i \in 1..Len(mods) |-> DecompModule(mods[i], Enz)]
Dv == DecompVector(vec, Enz)
C01_ProductIsFormula ==
  ph = "rot" =>
    /\ Tv.ok /\ \A i \in 1..Len(mods) : Tm[i].ok
    /\ LET g == Graph(Dm, Dv) IN
         /\ ProductExpected(g)
         /\ ImplProduct = Formula(Dm, Dv, g.chain)
         /\ Len(ImplProduct) = Len(Dv.tgt) + SumSeq([j \in 1..Len(g.chain) |-> Len(Dm[g.chain[j]].tgt)])
         /\ Len(g.chain) = Len(mods)
=============================================================================
