------------------------- MODULE MC_CircularRecord -------------------------
(* The record algebra as a state machine explored exhaustively by TLC: every record
   of length Len0 with one feature of every shape (one or two parts, either strand,
   origin-spanning, whole-turn, "source" or not) and a per-letter track; every
   sequence of rotations (any integer k in -2n..2n) and reverse complements up to
   depth MaxDepth.  Ghost variable net = <<flipped, shift>> is the group element
   applied so far; the invariants say the record IS the image of the original
   under that element (all group laws of C13/C14 at once) and that every feature
   and track value still sits on the same nucleotides.                         *)
EXTENDS CircularRecord

CONSTANTS Len0, MaxDepth, TwoParts,
          TrackShiftLeft      \* FALSE = the design; TRUE = negative model: per-letter tracks rotated the other way (defect D4)

VARIABLES rec, orig, net, depth, last, prev    \* prev/last: the transition that produced rec (for the replay harness)
vars == <<rec, orig, net, depth, last, prev>>

Letters == [i \in 1..Len0 |-> ((i * i + i \div 3) % 4) + 1]
Periodic == [i \in 1..Len0 |-> (i % 2) + 1]      \* a word that equals some of its own rotations
MkPart(a, L, st) == Canon(Len0, [st |-> st, idx |-> IF st = -1 THEN [i \in 1..L |-> (a + L - i) % Len0]
                                                                ELSE [i \in 1..L |-> (a + i - 1) % Len0]])
Intervals == (0..(Len0 - 1)) \X (1..Len0)

Init == /\ rec = [seq |-> << >>, tag |-> << >>, feats |-> << >>, track |-> << >>, meta |-> 0]
        /\ orig = rec /\ prev = rec /\ net = <<0, 0>> /\ depth = -1 /\ last = <<"Init">>
\* stage 0: choose the record (so that the exploration below is spread over all workers)
Build == /\ depth = -1
         /\ \E iv \in Intervals, st \in {1, -1}, src \in BOOLEAN, iv2 \in (IF TwoParts THEN Intervals ELSE {}) \cup {<<0, 0>>},
               word \in {Letters, Periodic} :
              LET p1 == MkPart(iv[1], iv[2], st)
                  ps == IF iv2[2] = 0 THEN <<p1>> ELSE <<p1, MkPart(iv2[1], iv2[2], st)>>
                  r  == [seq |-> word, tag |-> [i \in 1..Len0 |-> i],
                         feats |-> << [lab |-> IF src THEN "source" ELSE "misc", parts |-> ps] >>,
                         track |-> [i \in 1..Len0 |-> 10 + i], meta |-> 7]
              IN rec' = r /\ orig' = r /\ prev' = r
         /\ net' = <<0, 0>> /\ depth' = 0 /\ last' = <<"Build">>
RotRecX(r, k) == IF TrackShiftLeft THEN [RotRec(r, k) EXCEPT !.track = Rot(r.track, -k)] ELSE RotRec(r, k)
RotR(k) == /\ depth >= 0 /\ depth < MaxDepth
           /\ rec' = RotRecX(rec, k) /\ net' = <<net[1], (net[2] + k) % Len0>>
           /\ depth' = depth + 1 /\ last' = <<"RotR", k>> /\ prev' = rec /\ UNCHANGED orig
RotL(k) == /\ depth >= 0 /\ depth < MaxDepth
           /\ rec' = RotRecX(rec, -k) /\ net' = <<net[1], (net[2] - k) % Len0>>
           /\ depth' = depth + 1 /\ last' = <<"RotL", k>> /\ prev' = rec /\ UNCHANGED orig
RevComp == /\ depth >= 0 /\ depth < MaxDepth
           /\ rec' = RcRec(rec) /\ net' = <<1 - net[1], (-net[2]) % Len0>>
           /\ depth' = depth + 1 /\ last' = <<"RevComp">> /\ prev' = rec /\ UNCHANGED orig
Next == Build \/ (\E k \in (-2 * Len0)..(2 * Len0) : RotR(k)) \/ (\E k \in {-1, 1, Len0 + 1} : RotL(k)) \/ RevComp

Image == RotRec(IF net[1] = 1 THEN RcRec(orig) ELSE orig, net[2])
Built == depth >= 0
C13_GroupAction    == Built => rec = Image                       \* additivity, identity, inverse, involution, commutation
C13_FeaturesFollow == Built => FeaturesFollow(orig, rec)
C13_TrackFollows   == Built => TrackFollows(orig, rec)
C13_SeqFollowsTags == Built => \A i \in 1..Len0 : LET t == rec.tag[i] IN
                                 IF t > 0 THEN rec.seq[i] = orig.seq[t] ELSE rec.seq[i] = Comp(orig.seq[-t])
C14_SpellingConstant == Built => \A j \in 1..Len(rec.feats) : \A q \in 1..Len(rec.feats[j].parts) :
      LET p == rec.feats[j].parts[q]  o == orig.feats[j].parts[q] IN
        IF Len(p.idx) = Len0 THEN CycEq(Spell(rec, p), Spell(orig, o)) ELSE Spell(rec, p) = Spell(orig, o)
C14_Involution == Built => RcRec(RcRec(rec)) = rec
C14_Commutes   == Built => \A k \in 0..Len0 : RcRec(RotRec(rec, k)) = RotRec(RcRec(rec), -k)
C15_ContainsIsRotationInvariant ==
  Built => \A L \in 0..(Len0 + 1) : \A a \in 0..(Len0 - 1) :
     LET q == CycSlice(orig.seq, a, a + L) IN
       /\ Contains(rec, IF net[1] = 1 THEN RC(q) ELSE q) = (L <= Len0)
       /\ Contains(rec, q) = Contains(RotRec(rec, 1), q)
\* VIEW: the last action is only there for the replay harness
View == <<rec, orig, net, depth>>
=============================================================================
