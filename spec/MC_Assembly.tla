---- MODULE MC_Assembly ----
EXTENDS Assembly
OvhDef == {"a", "A", "b", "B", "p"}
RCDef == [o \in OvhDef |-> CASE o = "a" -> "A" [] o = "A" -> "a" [] o = "b" -> "B" [] o = "B" -> "b" [] o = "p" -> "p"]
OvhBig == {"a", "A", "b", "B", "c", "C", "p"}
RCBig == [o \in OvhBig |-> CASE o = "a" -> "A" [] o = "A" -> "a" [] o = "b" -> "B" [] o = "B" -> "b" [] o = "c" -> "C" [] o = "C" -> "c" [] o = "p" -> "p"]
NoFault == {0}
AnyFault == 0..14
====
