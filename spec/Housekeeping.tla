---------------------------- MODULE Housekeeping ----------------------------
(* Behaviour of moclo beyond the twenty listed properties (growth of the specification):
   resistance inference from feature labels, the cutter sanity check performed when a
   wrapper is created, and the order in which characterize tries its candidates.
   These are conformance statements ("X:" clauses of the trace specifications): they are
   reported in the evidence as extra coverage and never raise an alarm.               *)
EXTENDS Integers, Sequences, FiniteSets

\* ---- moclo.registry._utils.find_resistance ----------------------------------------------
Antibiotic(label) ==
  CASE label = "KanR" -> "Kanamycin" [] label = "KnR" -> "Kanamycin"
    [] label = "CamR" -> "Chloramphenicol" [] label = "CmR" -> "Chloramphenicol"
    [] label = "AmpR" -> "Ampicillin"
    [] label = "SmR" -> "Spectinomycin" [] label = "SpecR" -> "Spectinomycin"
    [] OTHER -> ""
\* feats = sequence of label sequences (one per feature, in record order).  The first feature that
\* carries a resistance label decides: exactly one label -> its antibiotic, several -> RuntimeError;
\* no such feature -> RuntimeError.
RECURSIVE Resistance(_)
Resistance(feats) ==
  IF feats = << >> THEN [ok |-> FALSE, res |-> ""]
  ELSE LET labs == {Head(feats)[i] : i \in 1..Len(Head(feats))}
           cas  == {l \in labs : Antibiotic(l) # ""}
       IN IF Cardinality(cas) > 1 THEN [ok |-> FALSE, res |-> ""]
          ELSE IF Cardinality(cas) = 1 THEN [ok |-> TRUE, res |-> Antibiotic(CHOOSE l \in cas : TRUE)]
          ELSE Resistance(Tail(feats))

\* ---- moclo.core._utils.cutter_check -----------------------------------------------------------
\* kind of cutter declared by the class -> what creating a wrapper does
CutterCheck(kind) == CASE kind = "undeclared" -> "NotImplementedError"
                       [] kind = "blunt" -> "ValueError"
                       [] kind = "unknown" -> "ValueError"
                       [] OTHER -> ""

\* ---- AbstractPart.characterize: candidates are tried in definition order, the class itself last --
FirstAccepting(accepts) ==        \* accepts: sequence of BOOLEAN, one per candidate in order; 0 = none
  IF \E i \in 1..Len(accepts) : accepts[i]
  THEN CHOOSE i \in 1..Len(accepts) : accepts[i] /\ \A j \in 1..(i - 1) : ~accepts[j]
  ELSE 0
\* ---- the documented exception lattice (moclo/errors.py; docs/source/api/errors) ---------------------------------------
\* class |-> the classes it must be an instance of, besides itself (library classes and the built-in mixins users catch)
ErrorAncestors ==
  [ MocloError       |-> {"Exception"},
    InvalidSequence  |-> {"MocloError", "ValueError", "Exception"},
    IllegalSite      |-> {"InvalidSequence", "MocloError", "ValueError", "Exception"},
    AssemblyError    |-> {"MocloError", "RuntimeError", "Exception"},
    DuplicateModules |-> {"AssemblyError", "MocloError", "RuntimeError", "Exception"},
    MissingModule    |-> {"AssemblyError", "MocloError", "RuntimeError", "Exception"},
    AssemblyWarning  |-> {"MocloError", "Warning", "Exception"},
    UnusedModules    |-> {"AssemblyWarning", "MocloError", "Warning", "Exception"} ]
\* the lattice is consistent: ancestors of an ancestor are ancestors; errors and warnings are disjoint families
ASSUME \A c \in DOMAIN ErrorAncestors : \A a \in ErrorAncestors[c] \cap DOMAIN ErrorAncestors : ErrorAncestors[a] \subseteq ErrorAncestors[c]
ASSUME \A c \in DOMAIN ErrorAncestors : ~({"AssemblyError", "AssemblyWarning"} \subseteq ErrorAncestors[c] \cup {c})
ASSUME \A c \in DOMAIN ErrorAncestors : ~({"InvalidSequence", "AssemblyError"} \subseteq ErrorAncestors[c] \cup {c})
=============================================================================
