INIT Init
NEXT Next
CONSTANTS
 Ovh <- OvhBig
 RCf <- RCBig
 MaxMods = 3
 RestoreOnFailure = TRUE
 Faults <- NoFault
INVARIANT C03_OutcomeIsExpected
INVARIANT C03_EachModuleOnce
INVARIANT C03_OrderIndependent
INVARIANT C07_InputsRestored
INVARIANT C19_Interchange
CHECK_DEADLOCK FALSE
