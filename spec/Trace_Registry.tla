--------------------------- MODULE Trace_Registry ---------------------------
(* Observations of real registries (embedded archives, directories, combinations)
   against the mapping laws of C20.  One event = one registry, observed completely:
   iteration, length, a lookup of every yielded key, lookups of absent keys.      *)
EXTENDS RegistryOps, TraceBase
\* FsRegistry!Listing with the design's (case-sensitive) rule, on logged directory entries [stem, ext, isdir]
FsSupported == {"gb", "gbk"}
\* (the registry may be configured with extensions of its own: the event then says which)
FsListing(dir, exts) == {dir[i].stem : i \in {j \in 1..Len(dir) : ~dir[j].isdir /\ dir[j].ext \in exts}}
FsExts(e) == IF "exts" \in DOMAIN e THEN {e.exts[i] : i \in 1..Len(e.exts)} ELSE FsSupported
VARIABLE l
Known == {"Kanamycin", "Chloramphenicol", "Ampicillin", "Spectinomycin"}
Dups(s) == \E i, j \in 1..Len(s) : i # j /\ s[i] = s[j]
RegistryFails(e) ==
  Chk("C20:KeysOnce", ~Dups(e.keys))
  \cup Chk("C20:LenIsKeys", e.len = Len(e.keys))
  \cup Chk("C20:EveryKeyFound", Len(e.lookups) = Len(e.keys) /\ \A i \in 1..Len(e.lookups) : e.lookups[i].exc = "" /\ e.lookups[i].contains)
  \cup Chk("C20:KeyIsId", \A i \in 1..Len(e.lookups) : e.lookups[i].exc = "" =>
                              e.lookups[i].id = e.keys[i] /\ e.lookups[i].rid = e.keys[i])
  \cup Chk("C20:HoldsCircularRecord", \A i \in 1..Len(e.lookups) : e.lookups[i].exc = "" => e.lookups[i].circular)
  \cup Chk("C20:KnownResistance", \A i \in 1..Len(e.lookups) : e.lookups[i].exc = "" => e.lookups[i].res \in Known)
  \cup Chk("C20:AbsentRaisesKeyError", \A i \in 1..Len(e.absent) : e.absent[i].exc = "KeyError" /\ ~e.absent[i].contains)
  \* a directory: exactly the stems of the regular files with a supported extension
  \cup (IF e.kind = "filesystem" THEN Chk("C20:DirIgnoresForeign", SeqToSet(e.keys) = FsListing(e.dir, FsExts(e))) ELSE {})
  \* a combination: union of the members, first member wins (Registry!AddTo over the logged members)
  \cup (IF e.kind = "combined"
        THEN LET RECURSIVE fold(_, _)
                 fold(c, k) == IF k > Len(e.members) THEN c ELSE fold(AddTo(c, e.members[k]), k + 1)
                 want == fold(<< >>, 1)
             IN Chk("C20:UnionOfMembers", SeqToSet(e.keys) = Ids(want))
                \cup Chk("C20:FirstWins", \A i \in 1..Len(e.lookups) : e.lookups[i].exc = "" =>
                                             \E x \in 1..Len(want) : want[x].id = e.keys[i] /\ want[x].tag = e.lookups[i].tag)
        ELSE {})
Init == l = 1
Next == /\ l <= Len(Log)
        /\ Report(l, IF Log[l].ev = "Registry" THEN RegistryFails(Log[l]) ELSE {"X:UnknownEvent"})
        /\ l' = l + 1
=============================================================================
