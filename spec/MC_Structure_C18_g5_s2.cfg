INIT Init
NEXT Next
CONSTANTS
 G = 5
 Scale = 2
INVARIANT C18_CaseInv
CHECK_DEADLOCK FALSE
