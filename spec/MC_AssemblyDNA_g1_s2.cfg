INIT Init
NEXT Next
CONSTANTS
 G = 1
 Scale = 2
INVARIANT C01_ProductIsFormula
CHECK_DEADLOCK FALSE
