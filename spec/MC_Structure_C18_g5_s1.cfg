INIT Init
NEXT Next
CONSTANTS
 G = 5
 Scale = 1
INVARIANT C18_CaseInv
CHECK_DEADLOCK FALSE
