---------------------------- MODULE Trace_Record ----------------------------
(* Implementation traces of CircularRecord operations against CircularRecord.tla
   (C13, C14, C15).  A trace is a chain of operations on one record: the trace
   specification keeps the record the chain started from (orig), the group
   element applied so far (net) and its own current record (cur); every logged
   result is compared with the specification's operation applied to the logged
   pre-state AND with the image of orig under net (compositions).             *)
EXTENDS CircularRecord, TraceBase

VARIABLES l, orig, net, cur
vars == <<l, orig, net, cur>>

\* logged records are [seq, feats: <<[lab, parts: <<[st, idx]>>]>>, track, meta, circular]
Abs(r) == [seq |-> r.seq, tag |-> [i \in 1..Len(r.seq) |-> i], feats |-> r.feats, track |-> r.track, meta |-> r.meta]
PartBag(f) == {f.parts[i] : i \in 1..Len(f.parts)}
\* features compared as bags of canonical runs; the label is compared through its type only
\* where the property does not speak about qualifiers
SameFeats(a, b, full) ==       \* as bags: the order of the feature table is representation
  LET same(f, g) == PartBag(f) = PartBag(g) /\ (full => f.lab = g.lab) IN
  /\ Len(a) = Len(b)
  /\ \A j \in 1..Len(a) : Cardinality({i \in 1..Len(a) : same(a[i], a[j])}) = Cardinality({i \in 1..Len(b) : same(b[i], a[j])})
\* the parts of a location, in the order the location lists them, keep that order under rotation
\* (a join is read in its listed order); whole-turn parts have no phase
SameOPart(n, x, y) == x.st = y.st /\ Len(x.idx) = Len(y.idx)
                      /\ (IF Len(x.idx) = n THEN SeqToSet(x.idx) = SeqToSet(y.idx) ELSE x.idx = y.idx)
OrderKept(pre, post, k) ==
  LET n == Len(pre.seq) IN
  /\ Len(pre.feats) = Len(post.feats)
  /\ \A j \in 1..Len(pre.feats) :
        /\ Len(pre.feats[j].oparts) = Len(post.feats[j].oparts)
        /\ \A i \in 1..Len(pre.feats[j].oparts) :
              LET a == pre.feats[j].oparts[i]
                  r == [st |-> a.st, idx |-> [q \in 1..Len(a.idx) |-> (a.idx[q] + k) % n]]
              IN SameOPart(n, r, post.feats[j].oparts[i])
Image(o, nt) == RotRec(IF nt[1] = 1 THEN RcRec(o) ELSE o, nt[2])

RotFails(e, o, nt2) ==
  IF e.exc # "" THEN {"C13:RotationRaises"} ELSE
  LET pre == Abs(e.pre)  n == Len(pre.seq)
      k   == IF e.dir = "R" THEN e.k ELSE -e.k
      x   == RotRec(pre, k)
      img == Image(o, nt2)
  IN Chk("C13:SequenceRotated", e.post.seq = x.seq)
     \cup Chk("C13:FeaturesFollow", SameFeats(e.post.feats, x.feats, TRUE))
     \cup Chk("C13:PartOrderKept", n = 0 \/ OrderKept(e.pre, e.post, k))
     \cup Chk("C13:TracksFollow", e.post.track = x.track)
     \cup Chk("C13:MetaCarried", e.post.meta = e.pre.meta /\ e.post.circular)
     \cup Chk("C13:GroupAction", e.post.seq = img.seq /\ SameFeats(e.post.feats, img.feats, FALSE))
RevCompFails(e, o, nt2) ==
  IF e.exc # "" THEN {"C14:ReverseComplementRaises"} ELSE
  LET pre == Abs(e.pre)
      x   == RcRec(pre)
      img == Image(o, nt2)
  IN Chk("C14:StaysCircular", e.post.circular)
     \cup Chk("C14:SequenceIsReverseComplement", e.post.seq = x.seq)
     \cup Chk("C14:FeaturesFollow", SameFeats(e.post.feats, x.feats, FALSE))
     \cup Chk("C14:ComposesWithRotation", e.post.seq = img.seq /\ SameFeats(e.post.feats, img.feats, FALSE))
ContainsFails(e) ==
  IF e.exc # "" THEN {"C15:ContainsRaises"} ELSE
  Chk("C15:ContainsIsCircular", e.res = OccursCirc(e.q, e.pre.seq))
SliceFails(e) ==
  IF e.exc # "" THEN {"C15:SliceRaises"} ELSE
  Chk("C15:SliceIsLinearString", e.res.seq = SliceSeq(Abs(e.pre), e.a, e.b))
  \cup Chk("C15:SliceNotCircular", ~e.res.circular /\ e.res.topo # "circular")
SliceStepFails(e) ==
  IF e.exc # "" THEN {"C15:SliceRaises"} ELSE
  Chk("C15:SliceIsLinearString", e.res.seq = StepSliceSeq(Abs(e.pre), e.a, e.b, e.step))
  \cup Chk("C15:SliceNotCircular", ~e.res.circular /\ e.res.topo # "circular")
\* C14: rc(r >> k) and rc(r) << k are the same record, part order of joins included
CommuteFails(e) ==
  IF e.exc # "" THEN {"C14:ReverseComplementRaises"} ELSE
  LET n == Len(e.a.seq) IN
  Chk("C14:CommutesWithRotation",
      /\ e.a.seq = e.b.seq /\ e.a.circular /\ e.b.circular
      /\ SameFeats(e.a.feats, e.b.feats, FALSE)
      /\ Len(e.a.feats) = Len(e.b.feats)
      /\ \A j \in 1..Len(e.a.feats) : \E j2 \in 1..Len(e.b.feats) :
            /\ e.a.feats[j].lab = e.b.feats[j2].lab /\ Len(e.a.feats[j].oparts) = Len(e.b.feats[j2].oparts)
            /\ \A i \in 1..Len(e.a.feats[j].oparts) : SameOPart(n, e.a.feats[j].oparts[i], e.b.feats[j2].oparts[i]))
AddFails(e)  == Chk("C15:AddRefusedWithTypeError", e.exc = "TypeError")
WrapFails(e) == Chk("C15:LinearCannotBeWrapped", e.exc # "")
CopyFails(e) == Chk("C15:WrapCopies", Len(e.aliased) = 0)

\* a chain (re)starts at the first event of a trace and after an in-place edit of the object
Restart(e) == e.n = 1 \/ ("reset" \in DOMAIN e /\ e.reset)
\* an operation whose result is looked at while the chain stays on the operand
Peek(e) == "peek" \in DOMAIN e /\ e.peek
Init == l = 1 /\ orig = << >> /\ net = <<0, 0>> /\ cur = << >>
Next ==
  /\ l <= Len(Log)
  /\ LET e  == Log[l]
         o  == IF Restart(e) THEN Abs(e.pre) ELSE orig
         nt == IF Restart(e) THEN <<0, 0>> ELSE net
         n  == Len(e.pre.seq)
         nt2 == IF n = 0 THEN nt
                ELSE IF e.ev = "Rot" THEN <<nt[1], (nt[2] + (IF e.dir = "R" THEN e.k ELSE -e.k)) % n>>
                ELSE IF e.ev = "RevComp" THEN <<1 - nt[1], (-nt[2]) % n>> ELSE nt
         f  == CASE e.ev = "Rot" -> RotFails(e, o, nt2)
                 [] e.ev = "RevComp" -> RevCompFails(e, o, nt2)
                 [] e.ev = "Contains" -> ContainsFails(e)
                 [] e.ev = "Slice" -> SliceFails(e)
                 [] e.ev = "SliceStep" -> SliceStepFails(e)
                 [] e.ev = "Add" -> AddFails(e)
                 [] e.ev = "Commute" -> CommuteFails(e)
                 [] e.ev = "WrapLinear" -> WrapFails(e)
                 [] e.ev = "WrapCopy" -> CopyFails(e)
                 [] OTHER -> {"X:UnknownEvent"}
         cont == IF Restart(e) \/ cur = << >> THEN {} ELSE Chk("X:Continuity", e.pre.seq = cur)
     IN /\ Report(l, f \cup cont)
        /\ orig' = o /\ net' = IF Peek(e) THEN nt ELSE nt2
        /\ cur' = IF e.ev \in {"Rot", "RevComp"} /\ e.exc = "" /\ ~Peek(e) THEN e.post.seq ELSE e.pre.seq
  /\ l' = l + 1
=============================================================================
