INIT Init
NEXT Next
CONSTANTS
 MaxItems = 3
 MaxLen = 3
INVARIANT FirstIffDeclarative
INVARIANT SearchIsLeftmost
INVARIANT OneTurn
INVARIANT LinearNeverWraps
INVARIANT SpansWellFormed
INVARIANT RotationEquivariant
INVARIANT CaseInsensitive
INVARIANT LinearImpliesCircular
CHECK_DEADLOCK FALSE
