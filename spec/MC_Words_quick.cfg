INIT Init
NEXT Next
CONSTANTS
 MaxLen = 8
INVARIANT C17_Total
INVARIANT C17_ShortRejected
CHECK_DEADLOCK FALSE
