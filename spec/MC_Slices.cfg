INIT Init
NEXT Next
CHECK_DEADLOCK FALSE
