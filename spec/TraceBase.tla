----------------------------- MODULE TraceBase -----------------------------
(* Common part of every trace specification (implementation -> specification).

   The log is an ndjson file (one event per line) named by the environment
   variable TRACE_FILE.  Every event carries tid (trace number) and n (its
   1-based index in that trace).  Verdicts are total: a trace action never
   blocks; it computes the set of failed clauses "<property>:<clause>" of the
   event, prints <<"FAIL", line, clauses>> and goes on, so that the rest of the
   log is still examined.  Clauses named "X:..." are conformance remarks about
   inputs outside a property's domain (printed as NOTE, never an alarm).      *)
EXTENDS Integers, Sequences, FiniteSets, TLC, Json, IOUtils

Log == ndJsonDeserialize(IOEnv.TRACE_FILE)

IsNote(c) == SubSeq(c, 1, 2) = "X:" \/ SubSeq(c, 1, 2) = "S:"
Report(line, clauses) ==
  LET notes == {c \in clauses : IsNote(c)}
      fails == clauses \ notes
  IN /\ IF fails = {} THEN TRUE ELSE PrintT(<<"FAIL", line, fails>>)
     /\ IF notes = {} THEN TRUE ELSE PrintT(<<"NOTE", line, notes>>)

\* clause helper: the name if the condition fails
Chk(name, cond) == IF cond THEN {} ELSE {name}

\* JSON arrays arrive as tuples: membership test
InSeq(x, s) == \E j \in 1..Len(s) : s[j] = x
SeqToSet(s) == {s[j] : j \in 1..Len(s)}

Accepted == PrintT(<<"DONE", TLCGet("stats").diameter - 1>>)
=============================================================================
