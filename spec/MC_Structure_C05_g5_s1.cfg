INIT Init
NEXT Next
CONSTANTS
 G = 5
 Scale = 1
INVARIANT C05_PartIffGenericAndSignature
CHECK_DEADLOCK FALSE
