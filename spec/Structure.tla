----------------------------- MODULE Structure -----------------------------
(* Typing of a record by a structure (moclo/core: StructuredRecord, AbstractModule,
   AbstractVector, AbstractPart).

   A class is  cls = [toks, enz, role, sig, ...]:  its structure pattern (three
   capture groups: overhang / body / overhang), its cutter geometry, whether it
   is a "module" or a "vector", and for signature-typed parts the two IUPAC
   overhang signatures.  Typing = first circular match of the structure, then
   the illegal-site screen (linear digest of the matched region gives at most
   three fragments), then the three groups are read as overhangs and target.   *)
EXTENDS DNARegex, Restriction

L(c)      == [k |-> "lit",  c |-> c, lazy |-> FALSE]
StarN     == [k |-> "star", c |-> 15, lazy |-> FALSE]
OpenT     == [k |-> "open",  c |-> 0, lazy |-> FALSE]
CloseT    == [k |-> "close", c |-> 0, lazy |-> FALSE]
Lit(s)    == [i \in 1..Len(s) |-> L(s[i])]
Ns(k)     == [i \in 1..k |-> L(15)]

\* generic structures derived from the cut pattern  site N^off ^ N^ovh _ N  (elucidate())
GenericModule(enz) ==
  Lit(enz.site) \o Ns(enz.off) \o <<OpenT>> \o Ns(enz.ovh) \o <<CloseT, OpenT>> \o Ns(1) \o <<StarN>> \o Ns(1)
  \o <<CloseT, OpenT>> \o Ns(enz.ovh) \o <<CloseT>> \o Ns(enz.off) \o Lit(RC(enz.site))
GenericVector(enz) ==
  Ns(1) \o <<OpenT>> \o Ns(enz.ovh) \o <<CloseT, OpenT>> \o Ns(enz.off) \o Lit(RC(enz.site)) \o <<StarN>>
  \o Lit(enz.site) \o Ns(enz.off) \o <<CloseT, OpenT>> \o Ns(enz.ovh) \o <<CloseT>> \o Ns(1)
\* signature-typed parts: the overhang groups are the signatures
PartModule(enz, up, down) ==
  Lit(enz.site) \o Ns(enz.off) \o <<OpenT>> \o Lit(up) \o <<CloseT, OpenT>> \o Ns(1) \o <<StarN>> \o Ns(1)
  \o <<CloseT, OpenT>> \o Lit(down) \o <<CloseT>> \o Ns(enz.off) \o Lit(RC(enz.site))
PartVector(enz, up, down) ==
  Ns(1) \o <<OpenT>> \o Lit(down) \o <<CloseT, OpenT>> \o Ns(enz.off) \o Lit(RC(enz.site)) \o <<StarN>>
  \o Lit(enz.site) \o Ns(enz.off) \o <<CloseT, OpenT>> \o Lit(up) \o <<CloseT>> \o Ns(1)

NoTyping == [ok |-> FALSE, illegal |-> FALSE, up |-> << >>, down |-> << >>, tgt |-> << >>, ph |-> << >>,
             s |-> 0, e |-> 0]
\* what is_valid / overhang_start / overhang_end / target_sequence / placeholder_sequence mean.
\* circ = the record's topology is circular (the search may run through the origin); a record declared
\* linear is searched as a line (growth beyond the listed properties: the kits only hold plasmids).
TypingT(toks, enz, role, w, circ) ==
  LET n == Len(w)
      r == Search(toks, w, 0, n, circ)
  IN IF n = 0 \/ Len(toks) = 0 \/ ~r.ok THEN NoTyping      \* (no tokens: the class's pattern uses syntax outside the modelled language)
     ELSE IF LinCuts(CycSlice(w, r.s, r.e), enz) > 2 THEN [NoTyping EXCEPT !.illegal = TRUE]
     ELSE LET sp == Spans(toks, r.m)
              g(i) == GroupText(w, sp[i][1], sp[i][2])
          IN IF role = "module"
             THEN [ok |-> TRUE, illegal |-> FALSE, up |-> g(1), down |-> g(3),
                   tgt |-> CycSlice(w, sp[1][1], sp[2][2]), ph |-> << >>, s |-> r.s, e |-> r.e]
             ELSE [ok |-> TRUE, illegal |-> FALSE, up |-> g(3), down |-> g(1),
                   tgt |-> CycSlice(w, sp[2][2], sp[1][1] + n),          \* everything but the placeholder
                   ph  |-> CycSlice(w, sp[1][1], sp[2][2]),              \* the discarded stretch
                   s |-> r.s, e |-> r.e]
Typing(toks, enz, role, w) == TypingT(toks, enz, role, w, TRUE)

UniqueStart(toks, w) == Cardinality(Starts(toks, w, TRUE)) = 1

\* IUPAC match of a reported overhang against a signature (case-insensitive)
SigMatches(sig, o) == Len(sig) = Len(o) /\ \A i \in 1..Len(sig) : Upper(o[i]) \in IUPAC(sig[i])

\* ---- what the reported values must be, from restriction semantics alone (C04) ----
\* up/down are the sticky ends at two cut positions of the enzyme, the target runs from the
\* first (leading overhang included) to the second (trailing one excluded) - for a vector this
\* is the stretch complementary to the placeholder, which is the rest of the circle.  (Which of
\* the two cuts comes from a forward site is not fixed: YTKPart234r has its sites reversed.)
AllCuts(w, enz) == {FwdCut(w, enz, p) : p \in FwdSites(w, enz)} \cup {RevCut(w, enz, q) : q \in RevSites(w, enz)}
DigestWitness(w, enz, role, up, down, tgt, ph) ==
  \E a \in AllCuts(w, enz), b \in AllCuts(w, enz) :
       /\ up = Sticky(w, enz, a) /\ down = Sticky(w, enz, b)
       /\ tgt = Between(w, a, b)
       /\ (ph # << >> => ph = Between(w, b, a) /\ Len(ph) + Len(tgt) = Len(w))
\* no other cut of the enzyme strictly inside the reported target
NoInnerCut(w, enz, tgt) ==
  \A p \in FwdSites(w, enz), q \in RevSites(w, enz) :
     LET a == FwdCut(w, enz, p)  b == RevCut(w, enz, q) IN
     (tgt = Between(w, a, b)) =>
        /\ \A p2 \in FwdSites(w, enz) \ {p} : LET d == (FwdCut(w, enz, p2) - a) % Len(w) IN ~(0 < d /\ d < Len(tgt))
        /\ \A q2 \in RevSites(w, enz) \ {q} : LET d == (RevCut(w, enz, q2) - a) % Len(w) IN ~(0 < d /\ d < Len(tgt))
=============================================================================
