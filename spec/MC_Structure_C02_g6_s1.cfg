INIT Init
NEXT Next
CONSTANTS
 G = 6
 Scale = 1
INVARIANT C02_RotInv
CHECK_DEADLOCK FALSE
