INIT Init
NEXT Next
CONSTANTS
 G = 5
 Scale = 2
INVARIANT C04_DigestAgreement
INVARIANT C04_IsCanonicDecomposition
INVARIANT C04_ConstructedIsAccepted
CHECK_DEADLOCK FALSE
