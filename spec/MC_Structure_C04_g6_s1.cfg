INIT Init
NEXT Next
CONSTANTS
 G = 6
 Scale = 1
INVARIANT C04_DigestAgreement
INVARIANT C04_IsCanonicDecomposition
INVARIANT C04_ConstructedIsAccepted
CHECK_DEADLOCK FALSE
