INIT Init
NEXT Next
CONSTANTS
 CaseInsensitiveListing = FALSE
INVARIANT C20_ListingLookupCoherent
CHECK_DEADLOCK FALSE
