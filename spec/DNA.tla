------------------------------- MODULE DNA -------------------------------
(* Words and circles over the IUPAC DNA alphabet.

   Letters are integers so that TLC can index and compare them:
     A C G T = 1..4          (the four nucleotides)
     R Y S W K M B D H V N = 5..15   (the eleven ambiguity codes)
     lower case = code + 16;   0 / 16 = any other character.
   A word is a sequence of letters; a circle is a word read modulo its length.
   Positions are 0-based (as in the implementation); TLA+ sequences are 1-based,
   hence the "+ 1" in every index expression.                              *)
EXTENDS Integers, Sequences, FiniteSets

Min(S) == CHOOSE x \in S : \A y \in S : x <= y
Max(S) == CHOOSE x \in S : \A y \in S : x >= y

Nuc == 1..4
\* (TLC evaluates [i \in 1..n |-> e] lazily and re-evaluates it on every use; `\o << >>` materialises a tuple)
Tup(s) == s \o << >>
IsLower(x) == x > 16
Upper(x)   == IF x > 16 THEN x - 16 ELSE x
Lower(x)   == IF x > 16 \/ x = 0 THEN x ELSE x + 16
UpperW(w)  == Tup([i \in 1..Len(w) |-> Upper(w[i])])
LowerW(w)  == Tup([i \in 1..Len(w) |-> Lower(w[i])])
IsNucWord(w) == \A i \in 1..Len(w) : Upper(w[i]) \in Nuc

\* The IUPAC table (docs: Cornish-Bowden 1985): code |-> the nucleotides it stands for.
IUPAC(c) ==
  CASE c = 1  -> {1}        [] c = 2  -> {2}        [] c = 3  -> {3}       [] c = 4 -> {4}
    [] c = 5  -> {1, 3}     \* R = A/G
    [] c = 6  -> {2, 4}     \* Y = C/T
    [] c = 7  -> {2, 3}     \* S = C/G
    [] c = 8  -> {1, 4}     \* W = A/T
    [] c = 9  -> {3, 4}     \* K = G/T
    [] c = 10 -> {1, 2}     \* M = A/C
    [] c = 11 -> {2, 3, 4}  \* B = not A
    [] c = 12 -> {1, 3, 4}  \* D = not C
    [] c = 13 -> {1, 2, 4}  \* H = not G
    [] c = 14 -> {1, 2, 3}  \* V = not T
    [] c = 15 -> {1, 2, 3, 4}
    [] OTHER  -> {}

\* Watson-Crick complement of a code: the code of the complemented set.
CompCode(c) ==
  CASE c = 1 -> 4 [] c = 4 -> 1 [] c = 2 -> 3 [] c = 3 -> 2
    [] c = 5 -> 6 [] c = 6 -> 5 [] c = 7 -> 7 [] c = 8 -> 8
    [] c = 9 -> 10 [] c = 10 -> 9 [] c = 11 -> 14 [] c = 14 -> 11
    [] c = 12 -> 13 [] c = 13 -> 12 [] c = 15 -> 15 [] OTHER -> c
Comp(x) == IF x > 16 THEN CompCode(x - 16) + 16 ELSE CompCode(x)
RC(w)   == Tup([i \in 1..Len(w) |-> Comp(w[Len(w) + 1 - i])])

\* Right rotation by k: the last k letters move to the front (k any integer).
Rot(w, k) == LET n == Len(w) IN IF n = 0 THEN w ELSE Tup([i \in 1..n |-> w[((i - 1 - k) % n) + 1]])

\* The letters at cyclic positions a, a+1, ..., b-1 (0-based, a <= b, any integers >= 0).
CycSlice(w, a, b) == IF b <= a \/ Len(w) = 0 THEN << >>
                     ELSE LET n == Len(w) IN Tup([i \in 1..(b - a) |-> w[((a + i - 1) % n) + 1]])
LinSlice(w, a, b) == IF b <= a THEN << >> ELSE Tup([i \in 1..(b - a) |-> w[a + i]])

\* Equality of circles: same length and one is a rotation of the other.
CycEq(u, v) == /\ Len(u) = Len(v)
               /\ (Len(u) = 0 \/ \E k \in 0..(Len(u) - 1) : \A i \in 1..Len(u) : u[i] = v[((i - 1 + k) % Len(v)) + 1])
\* Offsets k such that u = v read from position k.
CycOffsets(u, v) == IF Len(u) # Len(v) THEN {} ELSE IF Len(u) = 0 THEN {0}
                    ELSE {k \in 0..(Len(u) - 1) : \A i \in 1..Len(u) : u[i] = v[((i - 1 + k) % Len(v)) + 1]}

\* q occurs at cyclic position p of w.
AtCirc(w, p, q) == LET n == Len(w) IN \A j \in 1..Len(q) : w[((p + j - 1) % n) + 1] = q[j]
AtLin(w, p, q)  == p + Len(q) <= Len(w) /\ \A j \in 1..Len(q) : w[p + j] = q[j]
\* the same for a recognition SITE, whose letters may be ambiguity codes (LpnPI CCDG, SgrTI CCDS): a site letter stands for
\* its IUPAC set of nucleotides; for a site spelled with nucleotides only this is AtCirc / AtLin (on nucleotide data)
SiteAtCirc(w, p, q) == LET n == Len(w) IN \A j \in 1..Len(q) : w[((p + j - 1) % n) + 1] \in IUPAC(q[j])
SiteAtLin(w, p, q)  == p + Len(q) <= Len(w) /\ \A j \in 1..Len(q) : w[p + j] \in IUPAC(q[j])
\* Circular membership: q is no longer than w and is a factor of some rotation of w.
OccursCirc(q, w) == /\ Len(q) <= Len(w)
                    /\ (Len(q) = 0 \/ \E p \in 0..(Len(w) - 1) : AtCirc(w, p, q))
OccursLin(q, w)  == Len(q) = 0 \/ \E p \in 0..(Len(w) - Len(q)) : AtLin(w, p, q)

Words(S, n) == [1..n -> S]
SumSeq(s) == LET RECURSIVE sm(_) sm(i) == IF i = 0 THEN 0 ELSE s[i] + sm(i - 1) IN sm(Len(s))
RECURSIVE Concat(_)
Concat(ss) == IF Len(ss) = 0 THEN << >> ELSE Head(ss) \o Concat(Tail(ss))
=============================================================================
