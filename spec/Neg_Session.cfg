INIT Init
NEXT Next
CONSTANTS
 CacheLookup = "inherited"
 MaxHist = 3
INVARIANT C06_VerdictIndependent
INVARIANT C06_CacheBelongsToClass
CHECK_DEADLOCK FALSE
