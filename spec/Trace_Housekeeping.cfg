INIT Init
NEXT Next
POSTCONDITION Accepted
CHECK_DEADLOCK FALSE
