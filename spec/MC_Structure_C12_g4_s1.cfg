INIT Init
NEXT Next
CONSTANTS
 G = 4
 Scale = 1
INVARIANT C12_StrandSym
CHECK_DEADLOCK FALSE
