---------------------------- MODULE Trace_Typing ----------------------------
(* Implementation traces of the typing API against Structure.tla / Restriction.tla.
   One event = every public query of one class on one record (plus, optionally,
   the same queries on a twin record: rotated, reverse-complemented, re-cased;
   and the answers of the signature-free class with the same enzyme).
   Clauses of C02, C04, C05, C12, C17, C18.                                   *)
EXTENDS Structure, TraceBase

VARIABLE l
vars == <<l>>

Same(a, b) == /\ a.valid = b.valid /\ a.up = b.up /\ a.down = b.down /\ a.tgt = b.tgt /\ a.ph = b.ph
SameUpToCase(a, b) == /\ a.valid = b.valid /\ UpperW(a.up) = UpperW(b.up) /\ UpperW(a.down) = UpperW(b.down)
                      /\ UpperW(a.tgt) = UpperW(b.tgt) /\ UpperW(a.ph) = UpperW(b.ph)
NoQueryRaised(r) == \A i \in 1..Len(r.qexc) : r.qexc[i] = ""
AllQueriesRaised(r) == \A i \in 1..Len(r.qexc) : r.qexc[i] # ""

\* C17: is_valid returns a Boolean and never raises; on an invalid record every query raises
\* the invalid-sequence error; on a valid one none raises.
TotalFails(r) ==
  Chk("C17:IsValidTotal", r.exc = "")
  \cup Chk("C06:SameWrapperSameAnswer", r.exc # "" \/ r.again)
  \cup (IF r.exc # "" THEN {} ELSE
        IF r.valid THEN Chk("C17:ValidQueriesAnswer", NoQueryRaised(r))
        ELSE Chk("C17:InvalidRaisesInvalidSequence", AllQueriesRaised(r) /\ r.qinv))

TypingFails(e) ==
  LET c == e.cls   w == e.seq   r == e.res   n == Len(w)
      answered == r.exc = "" /\ r.valid /\ NoQueryRaised(r)
      \* "accepts" = answers: whenever the queries return values (even after is_valid said no) they are judged
      reports  == r.exc = "" /\ Len(r.qexc) > 0 /\ NoQueryRaised(r)
      t == Typing(c.toks, c.enz, c.role, w)
      nuc == IsNucWord(w)
  IN
  TotalFails(r)
  \* conformance with the specification's Typing (remark only: no listed property says which
  \* records a class accepts; the listed consequences are the clauses below)
  \cup (IF r.exc # "" THEN {} ELSE
        Chk("X:TypingVerdict", ~nuc \/ r.valid = t.ok)
        \cup (IF answered /\ t.ok
              THEN Chk("X:TypingValues", r.up = t.up /\ r.down = t.down /\ r.tgt = t.tgt /\ (c.role = "module" \/ r.ph = t.ph))
              ELSE {}))
  \* C17, on a record that is not valid (the class's own structure does not occur in it, or an extra site makes it illegal):
  \* every query raises the invalid-sequence error - whatever an earlier look at the same record object left behind
  \cup (IF r.exc = "" /\ nuc /\ Len(c.toks) > 0 /\ ~t.ok /\ Len(r.qexc) > 0
        THEN Chk("C17:NotValidRaises", AllQueriesRaised(r) /\ r.qinv) ELSE {})
  \* C04: what is reported is a pair of true restriction ends and the stretch between them
  \cup (IF reports
        THEN Chk("C04:DigestAgreement", DigestWitness(w, c.enz, c.role, r.up, r.down, r.tgt, << >>))
             \cup (IF c.flank THEN Chk("C04:NoInnerCut", NoInnerCut(w, c.enz, r.tgt)) ELSE {})
             \cup (IF c.role = "vector"
                   THEN Chk("C04:PlaceholderPartition",
                            /\ Len(r.ph) + Len(r.tgt) = n
                            /\ \E a \in 0..(n - 1) : r.ph = CycSlice(w, a, a + Len(r.ph))
                                                     /\ r.tgt = CycSlice(w, a + Len(r.ph), a + n)
                            /\ DigestWitness(w, c.enz, c.role, r.up, r.down, r.tgt, r.ph))
                   ELSE {})
        ELSE {})
  \* C05: a signature-typed part accepts iff the signature-free class accepts and its overhangs match
  \cup (IF Len(c.sig) = 2 /\ e.gen.has /\ r.exc = "" /\ e.gen.res.exc = ""
        THEN IF nuc /\ TwoSites(w, c.enz) /\ Cardinality(Starts(e.gen.toks, w, TRUE)) <= 1      \* (no generic match at all is unambiguous too)
             THEN Chk("C05:PartIffGenericAndSignature",
                      r.valid = (/\ e.gen.res.valid /\ NoQueryRaised(e.gen.res)
                                 /\ SigMatches(c.sig[1], e.gen.res.up) /\ SigMatches(c.sig[2], e.gen.res.down)))
                  \cup (IF r.valid /\ NoQueryRaised(r) /\ e.gen.res.valid
                        THEN Chk("C05:SameFragments", r.up = e.gen.res.up /\ r.down = e.gen.res.down /\ r.tgt = e.gen.res.tgt)
                        ELSE {})
             ELSE {"S:C05Precondition"}
        ELSE {})
  \* twins
  \cup (IF e.twin.by = "rot" /\ r.exc = "" /\ e.twin.res.exc = ""
        THEN IF Len(c.toks) = 0 /\ "occ" \in DOMAIN e
             \* the class's pattern is outside the modelled language (a look-around, say): the harness evaluated the
             \* precondition with an independent matcher - exactly one place of the circle at which the pattern matches
             \* in at least one linearisation (the reading under which an accepting implementation has seen an occurrence)
             THEN IF e.occ = 1 THEN Chk("C02:RotInv", Same(r, e.twin.res)) ELSE {"S:C02Precondition"}
             ELSE IF UniqueStart(c.toks, w) THEN Chk("C02:RotInv", Same(r, e.twin.res)) ELSE {"S:C02Precondition"}
        ELSE {})
  \cup (IF e.twin.by = "case" /\ r.exc = "" /\ e.twin.res.exc = ""
        THEN Chk("C18:CaseInv", SameUpToCase(r, e.twin.res)) ELSE {})
  \cup (IF e.twin.by = "rc" /\ c.generic /\ r.exc = "" /\ e.twin.res.exc = ""
        THEN IF TwoSites(w, c.enz)          \* (ambiguity letters in the record are allowed: strands must still agree)
             THEN LET x == e.twin.res  k == c.enz.ovh IN
                  Chk("C12:StrandSym",
                      /\ x.valid = r.valid
                      /\ (r.valid /\ NoQueryRaised(r) /\ NoQueryRaised(x)) =>
                           /\ x.up = RC(r.down) /\ x.down = RC(r.up)
                           /\ Len(x.tgt) = Len(r.tgt)
                           /\ LinSlice(x.tgt, k, Len(x.tgt)) = RC(LinSlice(r.tgt, k, Len(r.tgt))))
             ELSE {"S:C12Precondition"}
        ELSE {})
  \* the twin's own answers are judged as well
  \cup (IF e.twin.by # "none" THEN TotalFails(e.twin.res) ELSE {})

\* C05, second half: characterize returns an instance of a candidate type that accepts the
\* record, and fails with RuntimeError exactly when no candidate accepts it.
CharacterizeFails(e) ==
  LET w == e.seq
      ok(c) == Typing(c.toks, c.enz, c.role, w).ok
      accepting == {i \in 1..Len(e.cands) : ok(e.cands[i])}
      twin == IF "twin" \in DOMAIN e THEN e.twin ELSE [by |-> "none", res |-> [cls |-> "", exc |-> ""]]
  IN \* the same plasmid in another letter case / at another origin is given the same type (or the same refusal)
     (IF twin.by = "case" THEN Chk("C18:CaseInvCharacterize", twin.res.cls = e.res.cls /\ twin.res.exc = e.res.exc) ELSE {})
     \cup (IF twin.by = "rot" /\ IsNucWord(w)
           \* (no candidate type finds its structure at two places: each candidate's verdict is then origin-independent by C02)
           THEN IF \A i \in 1..Len(e.cands) : Len(e.cands[i].toks) > 0 => Cardinality(Starts(e.cands[i].toks, w, TRUE)) <= 1
                THEN Chk("C02:RotInvCharacterize", twin.res.cls = e.res.cls /\ twin.res.exc = e.res.exc)
                ELSE {"S:C02Precondition"}
           ELSE {})
     \cup
     IF ~IsNucWord(w) THEN {"S:C05Precondition"}
     ELSE IF \E i \in 1..Len(e.cands) : Len(e.cands[i].toks) = 0 THEN {"S:PatternOutsideModel"}    \* a candidate's pattern is not in the modelled language
     ELSE IF e.res.exc = ""
          THEN Chk("C05:CharacterizeReturnsAcceptingCandidate",
                   /\ e.res.valid
                   /\ \E i \in accepting : e.cands[i].name = e.res.cls)
          ELSE Chk("C05:CharacterizeFailsIffNoCandidate", e.res.exc = "RuntimeError" /\ accepting = {})

\* growth: records declared linear (conformance remarks only; target extraction is not defined for them)
LinearTypingFails(e) ==
  LET c == e.cls  w == e.seq  r == e.res
      t == TypingT(c.toks, c.enz, c.role, w, FALSE)
  IN IF r.exc # "" \/ ~IsNucWord(w) THEN {}
     ELSE Chk("X:LinearTypingVerdict", r.valid = t.ok)
          \cup (IF r.valid /\ t.ok /\ Len(r.qexc) >= 2 /\ r.qexc[1] = "" /\ r.qexc[2] = ""
                THEN Chk("X:LinearTypingOverhangs", r.up = t.up /\ r.down = t.down) ELSE {})
          \cup (IF r.valid /\ Len(r.qexc) >= 3 /\ r.qexc[3] # "" THEN {"X:LinearTargetRaises"} ELSE {})

\* growth: a circular plasmid held in a plain SeqRecord (topology annotation "circular" or none).  Verdict, overhangs and
\* placeholder are defined for it and must not depend on the origin; target extraction needs the rotation operator of
\* CircularRecord and is not defined (remark).
PlainTypingFails(e) ==
  LET c == e.cls  w == e.seq  r == e.res  x == e.twin.res
      t == Typing(c.toks, c.enz, c.role, w)
      ovh(y) == Len(y.qexc) >= 2 /\ y.qexc[1] = "" /\ y.qexc[2] = ""
      ph(y) == Len(y.qexc) >= 4 /\ y.qexc[4] = ""
  IN Chk("C17:IsValidTotal", r.exc = "" /\ x.exc = "")
     \cup (IF r.exc # "" \/ x.exc # "" \/ ~IsNucWord(w) THEN {}
           ELSE Chk("X:PlainTypingVerdict", r.valid = t.ok)
                \cup (IF r.valid /\ t.ok /\ ovh(r) THEN Chk("X:PlainTypingOverhangs", r.up = t.up /\ r.down = t.down) ELSE {})
                \cup (IF r.valid /\ Len(r.qexc) >= 3 /\ r.qexc[3] # "" THEN {"X:PlainTargetRaises"} ELSE {})
                \cup (IF UniqueStart(c.toks, w)
                      THEN Chk("C02:RotInv", /\ r.valid = x.valid
                                             /\ r.valid => /\ ovh(r) = ovh(x) /\ (ovh(r) => r.up = x.up /\ r.down = x.down)
                                                            /\ ph(r) = ph(x) /\ (ph(r) => r.ph = x.ph))
                      ELSE {"S:C02Precondition"}))

Fails(e) == CASE e.ev = "Typing" -> TypingFails(e)
              [] e.ev = "PlainTyping" -> PlainTypingFails(e)
              [] e.ev = "LinearTyping" -> LinearTypingFails(e)
              [] e.ev = "Characterize" -> CharacterizeFails(e)
              [] OTHER -> {"X:UnknownEvent"}

Init == l = 1
Next == /\ l <= Len(Log)
        /\ Report(l, Fails(Log[l]))
        /\ l' = l + 1
=============================================================================
