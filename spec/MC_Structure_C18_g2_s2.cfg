INIT Init
NEXT Next
CONSTANTS
 G = 2
 Scale = 2
INVARIANT C18_CaseInv
CHECK_DEADLOCK FALSE
