INIT Init
NEXT Next
CONSTANTS
 G = 2
 Scale = 2
INVARIANT C17_Total
CHECK_DEADLOCK FALSE
