INIT Init
NEXT Next
CONSTANTS
 Scale = 1
INVARIANT C11_ProductIsNextModule
CHECK_DEADLOCK FALSE
