---------------------------- MODULE KitStandards ----------------------------
(* The published fusion-site standards of two bundled kits, written down independently of the code
   (growth beyond the listed properties; remarks only):
     - Yeast ToolKit (Lee et al. 2015, ACS Synth. Biol. 4:975): part types 1-8 and their composites;
     - the plant "common syntax" used by the MoClo / Plant parts kits (Patron et al. 2015, New Phytol. 208:13):
       GGAG | TACT | CCAT | AATG | AGGT | TTCG | GCTT | GGTA | CGCT.
   A signature is <<upstream overhang, downstream overhang>>.  The ASSUMEs are the standards' own
   consistency (types chain, composites are concatenations); the trace clause compares the signature
   declared by each kit class with the standard.                                                  *)
EXTENDS Integers, Sequences, FiniteSets, TLC

YTK == [ YTKPart1 |-> <<"CCCT", "AACG">>, YTKPart2 |-> <<"AACG", "TATG">>, YTKPart3 |-> <<"TATG", "ATCC">>,
         YTKPart3a |-> <<"TATG", "TTCT">>, YTKPart3b |-> <<"TTCT", "ATCC">>, YTKPart4 |-> <<"ATCC", "GCTG">>,
         YTKPart4a |-> <<"ATCC", "TGGC">>, YTKPart4b |-> <<"TGGC", "GCTG">>, YTKPart5 |-> <<"GCTG", "TACA">>,
         YTKPart6 |-> <<"TACA", "GAGT">>, YTKPart7 |-> <<"GAGT", "CCGA">>, YTKPart8 |-> <<"CCGA", "CCCT">>,
         YTKPart8a |-> <<"CCGA", "CAAT">>, YTKPart8b |-> <<"CAAT", "CCCT">>,
         YTKPart234 |-> <<"AACG", "GCTG">>, YTKPart234r |-> <<"AACG", "GCTG">>, YTKPart678 |-> <<"TACA", "CCCT">> ]
Chains(a, b) == a[2] = b[1]
Joins(c, a, b) == c[1] = a[1] /\ c[2] = b[2] /\ Chains(a, b)
ASSUME /\ Chains(YTK.YTKPart1, YTK.YTKPart2) /\ Chains(YTK.YTKPart2, YTK.YTKPart3) /\ Chains(YTK.YTKPart3, YTK.YTKPart4)
       /\ Chains(YTK.YTKPart4, YTK.YTKPart5) /\ Chains(YTK.YTKPart5, YTK.YTKPart6) /\ Chains(YTK.YTKPart6, YTK.YTKPart7)
       /\ Chains(YTK.YTKPart7, YTK.YTKPart8) /\ Chains(YTK.YTKPart8, YTK.YTKPart1)          \* the cassette closes
       /\ Joins(YTK.YTKPart3, YTK.YTKPart3a, YTK.YTKPart3b) /\ Joins(YTK.YTKPart4, YTK.YTKPart4a, YTK.YTKPart4b)
       /\ Joins(YTK.YTKPart8, YTK.YTKPart8a, YTK.YTKPart8b)
       /\ YTK.YTKPart234[1] = YTK.YTKPart2[1] /\ YTK.YTKPart234[2] = YTK.YTKPart4[2]
       /\ YTK.YTKPart678[1] = YTK.YTKPart6[1] /\ YTK.YTKPart678[2] = YTK.YTKPart8[2]

\* common syntax: position name |-> signature
CS == [ Pro |-> <<"GGAG", "TACT">>, U5 |-> <<"TACT", "AATG">>, U5f |-> <<"TACT", "CCAT">>, NTag |-> <<"CCAT", "AATG">>,
        Pro5U |-> <<"GGAG", "AATG">>, Pro5Uf |-> <<"GGAG", "CCAT">>, CDS1 |-> <<"AATG", "GCTT">>, CDS1ns |-> <<"AATG", "TTCG">>,
        SP |-> <<"AATG", "AGGT">>, CDS2 |-> <<"AGGT", "GCTT">>, CDS2ns |-> <<"AGGT", "TTCG">>, CTag |-> <<"TTCG", "GCTT">>,
        U3 |-> <<"GCTT", "GGTA">>, Ter |-> <<"GGTA", "CGCT">>, U3Ter |-> <<"GCTT", "CGCT">>, Gene |-> <<"GGAG", "CGCT">> ]
ASSUME /\ Joins(CS.Pro5U, CS.Pro, CS.U5) /\ Joins(CS.Pro5Uf, CS.Pro, CS.U5f) /\ Joins(CS.U5, CS.U5f, CS.NTag)
       /\ Joins(CS.CDS1, CS.CDS1ns, CS.CTag) /\ Joins(CS.CDS1, CS.SP, CS.CDS2) /\ Joins(CS.CDS2, CS.CDS2ns, CS.CTag)
       /\ Joins(CS.U3Ter, CS.U3, CS.Ter) /\ Chains(CS.Pro5U, CS.CDS1) /\ Chains(CS.CDS1, CS.U3Ter)
       /\ CS.Gene[1] = CS.Pro[1] /\ CS.Gene[2] = CS.Ter[2]
\* kit class name |-> position of the common syntax it is documented to implement
Position == [ MoCloPro |-> "Pro", MoClo5U |-> "U5", MoClo5Uf |-> "U5f", MoCloNTag |-> "NTag", MoCloPro5U |-> "Pro5U", MoCloPro5Uf |-> "Pro5Uf",
              MoCloCDS1 |-> "CDS1", MoCloCDS1ns |-> "CDS1ns", MoCloSP |-> "SP", MoCloCDS2 |-> "CDS2", MoCloCDS2ns |-> "CDS2ns",
              MoCloCTag |-> "CTag", MoClo3U |-> "U3", MoCloTer |-> "Ter", MoClo3UTer |-> "U3Ter", MoCloGene |-> "Gene",
              Plant5U |-> "U5", Plant5Uf |-> "U5f", PlantPro5U |-> "Pro5U", PlantPro5Uf |-> "Pro5Uf", PlantNSignal |-> "NTag",
              PlantFullCDS |-> "CDS1", PlantCDS |-> "CDS1ns", PlantCDSNonStop |-> "CDS2ns", PlantCSignal |-> "CTag",
              Plant3U |-> "U3", PlantTer |-> "Ter" ]
Standard(name) == IF name \in DOMAIN YTK THEN YTK[name]
                  ELSE IF name \in DOMAIN Position THEN CS[Position[name]] ELSE << >>

\* ---- kits whose published tables are not written down here (CIDAR, EcoFlex): internal consistency of what they declare ---
\* the part types of a transcription unit chain (the downstream overhang of one is the upstream overhang of the next; N is
\* a free letter), and a composite type spans exactly the types it replaces
UnitOf == [ cidar   |-> <<"CIDARPromoter", "CIDARRibosomeBindingSite", "CIDARCodingSequence", "CIDARTerminator">>,
            ecoflex |-> <<"EcoFlexPromoter", "EcoFlexRBS", "EcoFlexCodingSequence", "EcoFlexTerminator">> ]
CompositeOf == [ EcoFlexPromoterRBS |-> <<"EcoFlexPromoter", "EcoFlexRBS">>,
                 EcoFlexRBS         |-> <<"EcoFlexTagLinker", "EcoFlexTag">> ]      \* (an RBS position may be filled by linker + tag)
SameOvh(a, b) == Len(a) = Len(b) /\ \A i \in 1..Len(a) : a[i] = b[i] \/ a[i] = "N" \/ b[i] = "N"
UnitChains(sigs) == \A i \in 1..(Len(sigs) - 1) : SameOvh(sigs[i][2], sigs[i + 1][1])
Spans(c, a, b) == SameOvh(c[1], a[1]) /\ SameOvh(c[2], b[2]) /\ SameOvh(a[2], b[1])
=============================================================================
