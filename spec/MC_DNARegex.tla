---------------------------- MODULE MC_DNARegex ----------------------------
(* Small-scope theorems about the pattern-search specification itself (C16):
   the implementation-shaped search equals the declarative one, never covers
   more than one turn, never wraps on linear targets, is rotation-equivariant
   and case-insensitive; the IUPAC letter table is exact.                   *)
EXTENDS DNARegex, TLC

CONSTANTS MaxItems, MaxLen

L(c)     == [k |-> "lit",  c |-> c, lazy |-> FALSE]
S(c, z)  == [k |-> "star", c |-> c, lazy |-> z]
Open     == [k |-> "open",  c |-> 0, lazy |-> FALSE]
Close    == [k |-> "close", c |-> 0, lazy |-> FALSE]
Items    == {L(1), L(2), L(15), L(5), L(11), S(15, FALSE), S(15, TRUE), S(1, FALSE), S(5, TRUE)}

\* items its[1..k] with one group around items a+1..b and a second around c+1..d (b <= c), or none
WithGroups(its, a, b, c, d, g) ==
  LET k == Len(its)
      piece(i) == (IF g >= 1 /\ i = a THEN <<Open>> ELSE << >>)
                  \o (IF g >= 2 /\ i = c THEN <<Open>> ELSE << >>)
      after(i) == (IF g >= 1 /\ i = b THEN <<Close>> ELSE << >>)
                  \o (IF g >= 2 /\ i = d THEN <<Close>> ELSE << >>)
      RECURSIVE build(_)
      build(i) == IF i > k THEN << >>
                  ELSE piece(i - 1) \o <<its[i]>> \o after(i) \o build(i + 1)
  IN (IF g >= 1 /\ b = 0 THEN <<Open, Close>> ELSE << >>) \o build(1)

VARIABLES ph, its, toks, w
vars == <<ph, its, toks, w>>

\* The enumeration is staged (items first, then groups and target) so that the
\* expensive second stage is spread over all TLC workers.
Init == ph = "init" /\ its = << >> /\ toks = << >> /\ w = << >>
ChooseItems == /\ ph = "init"
               /\ \E k \in 1..MaxItems : \E x \in [1..k -> Items] : its' = x
               /\ ph' = "items" /\ UNCHANGED <<toks, w>>
ChooseRest ==
         /\ ph = "items"
         /\ LET k == Len(its) IN
            \E g \in 0..2 : \E a \in 0..(k - 1), c \in 0..(k - 1) : \E b \in (a + 1)..k, d \in (c + 1)..k :
              /\ (g = 0 => a = 0 /\ b = 1 /\ c = 0 /\ d = 1)
              /\ (g = 1 => c = 0 /\ d = 1)
              /\ (g = 2 => (b <= c \/ (a <= c /\ d <= b /\ <<a, b>> # <<c, d>>)))
              /\ toks' = WithGroups(its, a, b, c, d, g)
         /\ \E n \in 1..MaxLen : \E x \in [1..n -> Nuc] : w' = x
         /\ ph' = "full" /\ UNCHANGED its
Next == ChooseItems \/ ChooseRest

n == Len(w)
Built == ph = "full"

FirstIffDeclarative ==
  Built => \A circ \in BOOLEAN : \A i \in 0..(n - 1) :
     /\ MatchAt(toks, w, i, circ)[1] <=> MatchesAt(toks, w, i, circ)
     /\ MatchAt(toks, w, i, circ)[1] =>
           MatchAt(toks, w, i, circ)[2] \in EndsFrom(toks, 1, Data(w, circ), {i}, Limit(w, i, circ))
SearchIsLeftmost ==
  Built => \A circ \in BOOLEAN :
     LET D == {i \in 0..(n - 1) : MatchesAt(toks, w, i, circ)} IN
     \A pos \in 0..n : \A endpos \in {0, 1, n - 1, n, n + 1} :
       LET r == Search(toks, w, pos, endpos, circ)
           H == {i \in D : pos <= i /\ i < endpos}
       IN /\ r.ok <=> H # {}
          /\ r.ok => r.s = Min(H)
          /\ r = SearchIn(D, toks, w, pos, endpos, circ)
OneTurn ==
  Built => \A i \in 0..(n - 1) : LET r == MatchAt(toks, w, i, TRUE) IN r[1] => r[2] - i <= n /\ r[2] >= i
LinearNeverWraps ==
  Built => \A i \in 0..(n - 1) : LET r == MatchAt(toks, w, i, FALSE) IN r[1] => r[2] <= n
SpansWellFormed ==
  Built => \A circ \in BOOLEAN : \A i \in 0..(n - 1) :
     LET r == MatchAt(toks, w, i, circ) IN r[1] =>
        LET sp == Spans(toks, r[3]) IN
          /\ Len(sp) = Groups(toks)
          /\ \A g \in 1..Len(sp) : i <= sp[g][1] /\ sp[g][1] <= sp[g][2] /\ sp[g][2] <= r[2]
RotationEquivariant ==
  Built => Starts(toks, Rot(w, 1), TRUE) = {(i + 1) % n : i \in Starts(toks, w, TRUE)}
CaseInsensitive ==
  Built => \A circ \in BOOLEAN :
     /\ Starts(toks, LowerW(w), circ) = Starts(toks, w, circ)
     /\ \A i \in Starts(toks, w, circ) : MatchAt(toks, LowerW(w), i, circ)[2] = MatchAt(toks, w, i, circ)[2]
\* a linear match is also a circular match at the same start (the converse fails by design)
LinearImpliesCircular == Built => Starts(toks, w, FALSE) \subseteq Starts(toks, w, TRUE)

IUPACExact == \A p \in 1..15 : \A x \in Nuc :
     /\ LetterMatches(p, x) <=> x \in IUPAC(p)
     /\ LetterMatches(p, x + 16) <=> x \in IUPAC(p)
     /\ IUPAC(CompCode(p)) = {CompCode(y) : y \in IUPAC(p)}
ASSUME IUPACExact
=============================================================================
