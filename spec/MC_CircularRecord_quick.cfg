INIT Init
NEXT Next
CONSTANTS
 Len0 = 4
 MaxDepth = 2
 TrackShiftLeft = FALSE
 TwoParts = FALSE
INVARIANT C13_GroupAction
INVARIANT C13_FeaturesFollow
INVARIANT C13_TrackFollows
INVARIANT C13_SeqFollowsTags
INVARIANT C14_SpellingConstant
INVARIANT C14_Involution
INVARIANT C14_Commutes
INVARIANT C15_ContainsIsRotationInvariant
CHECK_DEADLOCK FALSE
