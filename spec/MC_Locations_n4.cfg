INIT Init
NEXT Next
CONSTANTS
 N = 4
 TwoParts = TRUE
INVARIANT C13_RotationPreservesDenotation
INVARIANT C13_RotationKeepsForm
INVARIANT C08_KeptIffInside
INVARIANT C08_ImageDenotesSameNucleotides
CHECK_DEADLOCK FALSE
