INIT Init
NEXT Next
CONSTANTS
 MaxLen = 10
INVARIANT C17_Total
INVARIANT C17_ShortRejected
CHECK_DEADLOCK FALSE
