INIT Init
NEXT Next
CONSTANTS
 Ovh <- OvhDef
 RCf <- RCDef
 MaxMods = 2
 RestoreOnFailure = FALSE
 PalSelf = FALSE
 Faults <- AnyFault
INVARIANT C03_OutcomeIsExpected
INVARIANT C03_EachModuleOnce
INVARIANT C03_OrderIndependent
INVARIANT C07_InputsRestored
INVARIANT C19_Interchange
CHECK_DEADLOCK FALSE
