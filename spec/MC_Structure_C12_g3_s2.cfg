INIT Init
NEXT Next
CONSTANTS
 G = 3
 Scale = 2
INVARIANT C12_StrandSym
CHECK_DEADLOCK FALSE
