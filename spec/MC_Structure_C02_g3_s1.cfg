INIT Init
NEXT Next
CONSTANTS
 G = 3
 Scale = 1
INVARIANT C02_RotInv
CHECK_DEADLOCK FALSE
