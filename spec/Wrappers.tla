------------------------------ MODULE Wrappers ------------------------------
(* Wrapper objects and their memoised match (moclo/core/_structured.py: `_match` is a
   property_cached.cached_property, i.e. a per-descriptor weak dictionary keyed by the wrapper
   OBJECT) - growth beyond Session.tla, part of C06: what a class answers about a record
   depends on that class and that record only.

   A wrapper is created around a record object and belongs to a class.  The first question put
   to it computes the answer from the record's sequence AT THAT MOMENT and memoises it under
   the wrapper's key; later questions to the same wrapper return the memo (a wrapper is a
   snapshot: the documented way to see an edited record is to wrap it again).  Records are
   mutable objects (their sequence may be replaced in place), wrappers die (the weak
   dictionary forgets a key when the key object dies).

   KeyMode = "identity" is the implementation.  The other modes are the deviations that the
   seeded changes of the sub-agents introduced again and again (`__eq__`/`__hash__` on
   wrappers): keyed by (class, record object), by (class, circular sequence up to its origin), by
   the record object alone (keying by class and exact letters is harmless: MC_Wrappers_classseq).  They are refuted by TLC (Neg_Wrappers_*.cfg); every history TLC enumerates for
   the identity mode is replayed on real objects.                                          *)
EXTENDS Integers, Sequences, FiniteSets, TLC
CONSTANTS Classes, Records, Seqs, MaxWrappers, MaxSteps, KeyMode

\* the same plasmid written from another origin is a different sequence (the answer carries coordinates) on the same circle
Circle(s) == IF s = "rotated" THEN "valid" ELSE s
Truth(c, s) == <<c, s>>            \* what class c says about sequence s (an uninterpreted token: Structure.tla decides it)

VARIABLES seq,       \* record object |-> its current sequence
          alive,     \* set of wrapper ids that exist
          wcls, wrec,\* wrapper id |-> class, record object
          memo,      \* key |-> [ans, owner]: memoised answers; owner = the wrapper object whose death removes the entry
          asked,     \* wrapper ids that were asked at least once
          stale,     \* asked wrappers whose record was edited afterwards: what they answer from then on is NOT specified
                     \* (the implementation applies the memoised coordinates to the new letters) - remark, outside C06
          hist,      \* the history (for the replay)
          last       \* [w, ans, first]: the answer just given, and whether it was the wrapper's first question
vars == <<seq, alive, wcls, wrec, memo, asked, stale, hist, last>>

Key(w) == CASE KeyMode = "identity"     -> <<"w", w>>
            [] KeyMode = "class-record" -> <<"cr", wcls[w], wrec[w]>>
            [] KeyMode = "class-seq"    -> <<"cs", wcls[w], seq[wrec[w]]>>           \* (harmless: TLC finds no violation)
            [] KeyMode = "class-circle" -> <<"cc", wcls[w], Circle(seq[wrec[w]])>>   \* equal up to the origin
            [] KeyMode = "record"       -> <<"r", wrec[w]>>

Init == /\ seq = [r \in Records |-> CHOOSE s \in Seqs : TRUE]
        /\ alive = {} /\ wcls = << >> /\ wrec = << >> /\ memo = << >> /\ asked = {} /\ stale = {} /\ hist = << >>
        /\ last = [w |-> 0, ans |-> << >>, first |-> FALSE]
Room == Len(hist) < MaxSteps
New(c, r) == /\ Room /\ Len(wcls) < MaxWrappers
             /\ LET w == Len(wcls) + 1 IN
                /\ wcls' = Append(wcls, c) /\ wrec' = Append(wrec, r) /\ alive' = alive \cup {w}
                /\ hist' = Append(hist, <<"new", c, r>>)
             /\ UNCHANGED <<seq, memo, asked, stale, last>>
Ask(w) == /\ Room /\ w \in alive
          /\ LET k == Key(w)
                 hit == k \in DOMAIN memo
                 ans == IF hit THEN memo[k].ans ELSE Truth(wcls[w], seq[wrec[w]])
             IN /\ memo' = IF hit THEN memo ELSE [x \in DOMAIN memo \cup {k} |-> IF x = k THEN [ans |-> ans, owner |-> w] ELSE memo[x]]
                /\ last' = [w |-> w, ans |-> IF w \in stale THEN <<"?", "?">> ELSE ans, first |-> w \notin asked]
          /\ asked' = asked \cup {w}
          /\ hist' = Append(hist, <<"ask", w>>)
          /\ UNCHANGED <<seq, alive, wcls, wrec, stale>>
Edit(r, s) == /\ Room /\ s # seq[r]
              /\ seq' = [seq EXCEPT ![r] = s]
              /\ hist' = Append(hist, <<"edit", r, s>>)
              /\ stale' = stale \cup {w \in asked : wrec[w] = r}
              /\ UNCHANGED <<alive, wcls, wrec, memo, asked, last>>
Drop(w) == /\ Room /\ w \in alive
           /\ alive' = alive \ {w}
           /\ memo' = [k \in {x \in DOMAIN memo : memo[x].owner # w} |-> memo[k]]       \* weak keys: the entry dies with its key object
           /\ hist' = Append(hist, <<"drop", w>>)
           /\ UNCHANGED <<seq, wcls, wrec, asked, stale, last>>
Next == \/ \E c \in Classes, r \in Records : New(c, r)
        \/ \E w \in alive : Ask(w) \/ Drop(w)
        \/ \E r \in Records, s \in Seqs : Edit(r, s)

\* C06: the first answer of a wrapper is what its class says about the record as it is now - whatever other wrappers,
\* classes and edits came before
C06_FirstAnswerIsCurrent ==
  (last.w # 0 /\ last.first /\ hist # << >> /\ hist[Len(hist)][1] = "ask") => last.ans = Truth(wcls[last.w], seq[wrec[last.w]])
\* a wrapper is a snapshot: asked again it repeats itself (C06:SameWrapperSameAnswer)
C06_WrapperRepeatsItself ==
  \A k \in DOMAIN memo : KeyMode = "identity" => memo[k].ans[1] = wcls[memo[k].owner]
=============================================================================
