"""./check <Cxx> [--tier quick|thorough] [--seed N] | replay <path> | setup | selftest | all"""
import argparse
import importlib
import json
import os
import subprocess
import sys
import traceback

from . import tlc
from .core import log

PROPS = ["C%02d" % i for i in range(1, 21)]


def run_prop(pid, tier, seed):
    mod = importlib.import_module("harness.props.%s" % pid.lower())
    return mod.run(tier, seed)


def setup():
    """Syntax-check every specification module with SANY; verify the tool paths."""
    ok = True
    for f in sorted(os.listdir(tlc.SPEC)):
        if not f.endswith(".tla"):
            continue
        p = subprocess.run(["java", "-cp", tlc.JARS, "tla2sany.SANY", f], cwd=tlc.SPEC,
                           stdout=subprocess.PIPE, stderr=subprocess.STDOUT, universal_newlines=True)
        bad = p.returncode != 0 or "*** Errors" in p.stdout or "Fatal errors" in p.stdout or "Could not" in p.stdout
        print("%-32s %s" % (f, "FAILED" if bad else "ok"))
        if bad:
            print(p.stdout[-1500:])
            ok = False
    from . import loader
    loader.load()
    import moclo
    print("moclo loaded from", moclo.__file__)
    return 0 if ok else 2


def replay(path):
    with open(path) as f:
        rec = json.load(f)
    pid = rec["property"]
    mod = importlib.import_module("harness.props.%s" % pid.lower())
    case = rec["case"]
    if case.get("kind") == "model":
        r = tlc.model_check(case["module"], case["cfg"])
        bad = bool(r.violated)
        print(r.out[-3000:])
    else:
        bad = mod.replay_case(rec)
    if bad:
        print("VIOLATION property=%s replay=%s" % (pid, path))
        return 1
    print("replay of %s: the recorded case no longer violates %s" % (path, rec.get("clause")))
    return 0


def main(argv=None):
    ap = argparse.ArgumentParser(prog="check")
    ap.add_argument("what")
    ap.add_argument("path", nargs="?")
    ap.add_argument("--tier", default=os.environ.get("VERIF_TIER", "quick"), choices=["quick", "thorough"])
    ap.add_argument("--seed", type=int, default=int(os.environ.get("VERIF_SEED", "0") or 0))
    a = ap.parse_args(argv)
    try:
        if a.what == "setup":
            return setup()
        if a.what == "replay":
            return replay(a.path)
        if a.what == "suite":
            from . import suite
            return suite.main(a.tier, a.seed)
        if a.what == "selftest":
            from . import selftest
            return selftest.main(a.tier, a.seed)
        if a.what == "all":
            rc = 0
            for p in PROPS:
                try:
                    rc = max(rc, run_prop(p, a.tier, a.seed))
                except ImportError as ex:
                    log("skip %s: %s" % (p, ex))
            return rc
        pid = a.what.upper()
        if pid not in PROPS:
            ap.error("unknown property %s" % a.what)
        return run_prop(pid, a.tier, a.seed)
    except tlc.TLCError as ex:
        log("MACHINERY FAILURE: %s" % ex)
        return 2
    except Exception:  # noqa
        traceback.print_exc()
        return 2


if __name__ == "__main__":
    sys.exit(main())
