"""Driving CircularRecord: operation chains logged for spec/Trace_Record.tla, and replay of the
transitions TLC enumerated for spec/MC_CircularRecord.tla."""
import copy
import json
import os
import shutil
import tempfile

from . import dna, gen, loader, project, tlaval
from .core import log


# ---------------------------------------------------------------- random records
def random_record(rng, n=None, nfeat=None, alphabet="ACGT", order_ops=False):
    loader.load()
    from Bio.Seq import Seq
    from Bio.SeqFeature import CompoundLocation, FeatureLocation, SeqFeature
    from moclo.record import CircularRecord
    n = n or rng.randint(4, 40)
    seq = gen.rnd(n, rng, alphabet)
    feats = []
    for _ in range(rng.randint(0, 4) if nfeat is None else nfeat):
        st = rng.choice([1, -1, 1, -1, None])
        shape = rng.random()
        parts = []
        nparts = 1 if shape < 0.6 else rng.randint(2, 3)
        mixed = nparts > 1 and rng.random() < 0.25        # a join whose parts lie on different strands
        for _ in range(nparts):
            if mixed:
                st = rng.choice([1, -1])
            a = rng.randrange(n)
            L = rng.randint(1, n)
            if rng.random() < 0.08:          # a site between two bases ("34^35"): zero letters
                parts.append(FeatureLocation(a, a, strand=st))
                continue
            if rng.random() < 0.1:
                a, L = 0, n
            if a + L <= n or rng.random() < 0.5:
                parts.append(FeatureLocation(a, a + L, strand=st))          # possibly past the end
            else:
                parts.append(FeatureLocation(a, n, strand=st))
                parts.append(FeatureLocation(0, a + L - n, strand=st))
        if order_ops and rng.random() < 0.2:
            # open ends (GenBank `<a..>b`) on some parts
            from Bio.SeqFeature import AfterPosition, BeforePosition
            j = rng.randrange(len(parts))
            pj = parts[j]
            if int(pj.start) < int(pj.end):
                parts[j] = FeatureLocation(BeforePosition(int(pj.start)) if rng.random() < 0.7 else pj.start,
                                           AfterPosition(int(pj.end)) if rng.random() < 0.7 else pj.end, strand=pj.strand)
        # (a quarter of the compound locations are GenBank `order(...)` rather than `join(...)`)
        loc = parts[0] if len(parts) == 1 else CompoundLocation(parts, operator="order" if (order_ops and rng.random() < 0.25) else "join")
        ftype = rng.choice(["CDS", "misc_feature", "source", "promoter"])
        feats.append(SeqFeature(loc, type=ftype, id="f%d" % len(feats),
                                qualifiers={"label": ["L%d" % rng.randrange(99)], "note": ["n"] if rng.random() < 0.7 else "bare string"}))
    kw = {}
    if rng.random() < 0.7:
        kw["letter_annotations"] = {"q": [rng.randrange(100) for _ in range(n)]}
    return CircularRecord(Seq(seq), id="id%d" % rng.randrange(999), name="nm%d" % rng.randrange(99), description="desc",
                          features=feats, annotations={"topology": "circular", "molecule_type": "DNA", "k": rng.randrange(9)},
                          dbxrefs=["x:%d" % rng.randrange(9)], **kw)


def _exc(fn):
    try:
        return fn(), ""
    except TypeError as ex:       # (a subclass of TypeError is a TypeError)
        return None, "TypeError"
    except BaseException as ex:  # noqa
        return None, type(ex).__name__


def chain(rec, ops):
    """apply ops to rec, logging one event per op; rotations / reverse complement move on"""
    loader.load()
    from Bio.Seq import Seq
    from Bio.SeqRecord import SeqRecord
    from moclo.record import CircularRecord
    evs = []
    cur = rec
    reset = False
    for op in ops:
        pre = project.project(cur)
        kind = op[0]
        n_before = len(evs)
        if kind in ("R", "L"):
            k = op[1]
            out, exc = _exc(lambda: (cur >> k) if kind == "R" else (cur << k))
            evs.append({"ev": "Rot", "dir": kind, "k": k, "pre": pre, "exc": exc,
                        "post": project.project(out) if exc == "" else pre})
            if exc == "":
                cur = out
        elif kind == "RPEEK":           # a rotation of the current object that is only looked at; the object stays current
            d, k = op[1], op[2]
            out, exc = _exc(lambda: (cur >> k) if d == "R" else (cur << k))
            evs.append({"ev": "Rot", "dir": d, "k": k, "pre": pre, "exc": exc,
                        "post": project.project(out) if exc == "" else pre, "peek": True})
            if exc == "" and out is not cur and len(op) > 3 and op[3]:     # ... and the copy handed out is edited by its owner
                try:
                    if out.features:
                        out.features.pop()
                    out.id = "edited-copy"
                    out.annotations["note"] = "edited"
                except Exception:  # noqa
                    pass
        elif kind == "EDIT":            # the very same object is edited in place: id, description, a feature, a per-letter track
            what = op[1]
            try:
                from Bio.SeqFeature import FeatureLocation as _FL2, SeqFeature as _SF2
                n_ = len(cur.seq)
                if what == "id":
                    cur.id, cur.name, cur.description = "renamed", "newname", "new description"
                elif what == "feat":
                    cur.features.append(_SF2(_FL2(op[2] % max(n_, 1), min(n_, op[2] % max(n_, 1) + 2), strand=1), type="misc_feature",
                                             id="e%d" % len(cur.features), qualifiers={"label": ["edited-in"]}))
                elif what == "loc" and cur.features:
                    a_ = op[2] % max(n_, 1)
                    cur.features[0].location = _FL2(a_, min(n_, a_ + 3), strand=-1)
                elif what == "track":
                    cur.letter_annotations["extra%d" % op[2]] = [(i * 7 + op[2]) % 50 for i in range(n_)]
                elif what == "delfeat" and cur.features:
                    del cur.features[op[2] % len(cur.features)]
            except Exception:  # noqa
                pass
            reset = True
        elif kind == "SLS":             # extended slice: bounds may be absent, the step may be negative
            a, b, st = op[1], op[2], op[3]
            res, exc = _exc(lambda: cur[a:b:st])
            r = {"seq": [], "circular": False, "topo": ""}
            if exc == "":
                r = {"seq": dna.enc(res.seq), "circular": isinstance(res, CircularRecord),
                     "topo": str(res.annotations.get("topology", ""))}
            enc_ = lambda x: {"none": x is None, "v": 0 if x is None else x}   # noqa: E731
            evs.append({"ev": "SliceStep", "pre": pre, "a": enc_(a), "b": enc_(b), "step": 1 if st is None else st, "res": r, "exc": exc})
        elif kind == "RC":
            kw = dict(op[1]) if len(op) > 1 else {}          # the keyword arguments of SeqRecord.reverse_complement
            out, exc = _exc(lambda: cur.reverse_complement(**kw))
            evs.append({"ev": "RevComp", "pre": pre, "exc": exc, "post": project.project(out) if exc == "" else pre})
            if exc == "":
                cur = out
        elif kind == "RCPEEK":          # reverse complement of the current object, which stays the current object
            out, exc = _exc(cur.reverse_complement)
            evs.append({"ev": "RevComp", "pre": pre, "exc": exc, "post": project.project(out) if exc == "" else pre, "peek": True})
        elif kind == "SETSEQ":           # the sequence of the very same object is replaced (no event: the next events see it)
            from Bio.Seq import Seq as _Seq
            new = op[1]
            try:
                cur.seq = _Seq(new)
                cur.features[:] = [f for f in cur.features if int(f.location.end) <= len(new)]
                if cur.letter_annotations:
                    cur.letter_annotations = {}
            except Exception:  # noqa
                pass
            reset = True
        elif kind == "ADDFEAT":          # a feature is appended in place to the very same object
            from Bio.SeqFeature import FeatureLocation as _FL, SeqFeature as _SF
            a, b, st = op[1], op[2], op[3]
            cur.features.append(_SF(_FL(a, b, strand=st), type="misc_feature", id="added%d" % len(cur.features), qualifiers={"label": ["added"]}))
            reset = True
        elif kind == "COMM":
            k = op[1]
            res, exc = _exc(lambda: ((cur >> k).reverse_complement(), cur.reverse_complement() << k))
            evs.append({"ev": "Commute", "pre": pre, "k": k, "exc": exc,
                        "a": project.project(res[0]) if exc == "" else pre, "b": project.project(res[1]) if exc == "" else pre})
        elif kind == "IN":
            q = op[1]
            res, exc = _exc(lambda: q in cur)
            evs.append({"ev": "Contains", "pre": pre, "q": dna.enc(q), "res": bool(res), "exc": exc})
        elif kind == "SL":
            a, b = op[1], op[2]
            res, exc = _exc(lambda: cur[a:b])
            r = {"seq": [], "circular": False, "topo": ""}
            if exc == "":
                r = {"seq": dna.enc(res.seq), "circular": isinstance(res, CircularRecord),
                     "topo": str(res.annotations.get("topology", ""))}
            evs.append({"ev": "Slice", "pre": pre, "a": a, "b": b, "res": r, "exc": exc})
        elif kind == "ADD":
            side, what = op[1], op[2]
            from Bio.Seq import MutableSeq
            other = {"str": "ACGT", "Seq": Seq("ACGT"), "SeqRecord": SeqRecord(Seq("ACGT"), id="o"),
                     "CircularRecord": CircularRecord(Seq("ACGT"), id="o"), "slice": cur[0:2] if len(cur.seq) else SeqRecord(Seq(""), id="e"),
                     "empty-str": "", "empty-SeqRecord": SeqRecord(Seq(""), id="e"), "MutableSeq": MutableSeq("ACGT"), "int": 3, "None": None,
                     "list": ["A", "C"], "bytes": b"ACGT", "self": cur}[what]
            res, exc = _exc(lambda: (cur + other) if side == "right" else (other + cur))
            evs.append({"ev": "Add", "pre": pre, "side": side, "other": what, "exc": exc or "returned:" + type(res).__name__})
        if reset and len(evs) > n_before:
            evs[n_before]["reset"] = True      # the object was edited in place: the composed group element starts afresh
            reset = False
    if evs:
        evs[0]["ops"] = json.dumps([list(o) for o in ops])     # (not read by the specification: lets a replay re-run the in-place edits too)
    return evs


def wrap_events(rng):
    """C15: a linear record cannot be wrapped; wrapping copies"""
    loader.load()
    from Bio.Seq import Seq
    from Bio.SeqFeature import FeatureLocation, SeqFeature
    from Bio.SeqRecord import SeqRecord
    from moclo.record import CircularRecord
    evs = []
    for topo in ("linear", "LINEAR", "Linear"):
        lin = SeqRecord(Seq(gen.rnd(rng.randint(3, 12), rng)), id="lin", annotations={"topology": topo})
        _, exc = _exc(lambda: CircularRecord(lin))
        evs.append([{"ev": "WrapLinear", "pre": project_plain(lin), "exc": exc}])
    n = rng.randint(5, 15)
    src = SeqRecord(Seq(gen.rnd(n, rng)), id="orig", name="n", description="d", dbxrefs=["a:1"],
                    features=[SeqFeature(FeatureLocation(1, 3, strand=1), type="CDS", qualifiers={"label": ["x"]})],
                    annotations={"topology": "circular", "k": [1, 2]}, letter_annotations={"q": list(range(n))})
    if rng.random() < 0.5:
        src = CircularRecord(src)
    before = project.project(src), copy.deepcopy(src.annotations), list(src.dbxrefs), str(src.features[0].location), dict(src.features[0].qualifiers)
    cp = CircularRecord(src)
    aliased = []
    edits = [
        ("features.append", lambda: cp.features.append(SeqFeature(FeatureLocation(0, 1), type="misc"))),
        ("feature.qualifiers", lambda: cp.features[0].qualifiers["label"].append("edited")),
        ("feature.location", lambda: setattr(cp.features[0], "location", FeatureLocation(0, 2, strand=-1))),
        ("annotations[k]", lambda: cp.annotations["k"].append(3)),
        ("annotations[new]", lambda: cp.annotations.__setitem__("new", 1)),
        ("dbxrefs.append", lambda: cp.dbxrefs.append("b:2")),
        ("letter_annotations", lambda: cp.letter_annotations["q"].__setitem__(0, 99)),
        ("id", lambda: setattr(cp, "id", "changed")),
    ]
    for name, fn in edits:
        try:
            fn()
        except Exception:  # noqa
            pass
        now = project.project(src), copy.deepcopy(src.annotations), list(src.dbxrefs), str(src.features[0].location), dict(src.features[0].qualifiers)
        if now != before:
            aliased.append(name)
            before = now
    evs.append([{"ev": "WrapCopy", "pre": project.project(src), "aliased": aliased, "source_type": type(src).__name__}])
    return evs


def project_plain(rec):
    return {"seq": dna.enc(rec.seq), "feats": [], "track": [], "meta": "", "circular": False}


# ---------------------------------------------------------------- S -> I replay
def replay_transitions(run, cfg, limit=None):
    """Every transition TLC enumerated (state = (prev, last action, rec)) is performed on a real
    CircularRecord built from prev in both coordinate representations, and the projection of the
    result is compared with the rec TLC computed."""
    d = tempfile.mkdtemp(prefix="verif-dump-")
    path = os.path.join(d, "rec")
    run.model_check("MC_CircularRecord", cfg, extra=["-dump", path], coverage=True)
    n_edges = 0
    prop = run.prop
    bad = {}
    for st in tlaval.parse_dump(path + ".dump"):
        act = st["last"]
        if act[0] not in ("RotR", "RotL", "RevComp"):
            continue
        pre, post = st["prev"], st["rec"]
        n = len(pre["seq"])
        want = (post["seq"], project.canon_feats(post["feats"], n), post["track"])
        for rep in ("pastend", "split"):
            obj = project.build(pre, rep)
            if act[0] == "RotR":
                out = obj >> act[1]
            elif act[0] == "RotL":
                out = obj << act[1]
            else:
                out = obj.reverse_complement()
            pr = project.project(out)
            got = (pr["seq"], project.canon_feats(pr["feats"], n), pr["track"])
            n_edges += 1
            if n_edges == 50:
                run.add_sample({"transition": {"pre": pre, "action": act, "spec_post": post, "representation": rep, "impl_post": pr}})
            if got != want:
                which = "seq" if got[0] != want[0] else ("features" if got[1] != want[1] else "track")
                p = "C14" if act[0] == "RevComp" else "C13"
                src = any(f["lab"] == "source" for f in pre["feats"])
                multi = any(len(f["parts"]) > 1 for f in pre["feats"])
                sig = "%s:ReplayedTransition|%s|%s%s%s" % (p, act[0], which, "|source" if src and which == "features" else "",
                                                           "|compound" if multi and which == "features" else "")
                if sig not in bad:
                    bad[sig] = True
                    run.violation(p, "%s:ReplayedTransition" % p, sig,
                                  "transition %s on %s (%s representation): the specification gives %s, the code gives %s"
                                  % (act, pre, rep, post, pr),
                                  {"kind": "replay-record", "pre": pre, "action": act, "post": post, "representation": rep})
        if limit and n_edges >= limit:
            break
    run.replayed["record-transitions"] = n_edges
    shutil.rmtree(d, ignore_errors=True)


def replay_one(case):
    pre, act, post, rep = case["pre"], case["action"], case["post"], case["representation"]
    n = len(pre["seq"])
    obj = project.build(pre, rep)
    out = (obj >> act[1]) if act[0] == "RotR" else (obj << act[1]) if act[0] == "RotL" else obj.reverse_complement()
    pr = project.project(out)
    got = (pr["seq"], project.canon_feats(pr["feats"], n), pr["track"])
    want = (post["seq"], project.canon_feats(post["feats"], n), post["track"])
    log("replay: %s on %s -> %s ; specification: %s" % (act, pre, pr, post))
    return got != want
