"""Bookkeeping of one check run: model-checking results, validated traces, violations,
known findings, replay files and the evidence file.  Decides nothing by itself."""
import hashlib
import json
import os
import random
import sys
import time

from . import tlc

VERIF = tlc.VERIF
OUT = os.environ.get("VERIF_OUTDIR") or os.path.join(VERIF, "out")          # (overridden by the seeded-change runner)
EVID = os.environ.get("VERIF_EVIDDIR") or os.path.join(VERIF, "evidence")
FINDINGS = os.path.join(VERIF, "KNOWN_FINDINGS.json")


def log(*a):
    print(*a, file=sys.stderr)
    sys.stderr.flush()


def load_findings():
    try:
        with open(FINDINGS) as f:
            return json.load(f).get("findings", [])
    except IOError:
        return []


class Violation(object):
    def __init__(self, prop, clause, sig, what, case):
        self.prop, self.clause, self.sig, self.what, self.case = prop, clause, sig, what, case


class Run(object):
    """One run of the check of one property."""

    def __init__(self, prop, tier="quick", seed=0):
        self.prop, self.tier, self.seed = prop, tier, int(seed)
        self.rng = random.Random(self.seed * 1000003 + int(prop[1:]))
        self.t0 = time.time()
        self.mc = []                 # tlc.MCResult
        self.neg = []                # negative models that were refuted, as required
        self.val = []                # (label, tlc.ValResult)
        self.replayed = {}           # label -> edges replayed spec -> impl
        self.violations = []         # Violation
        self.other = {}              # clause of another property -> count (informational)
        self.notes = {}              # conformance note -> count
        self.samples = []
        self.extra = {}
        self.skipped = {}            # precondition-skipped counters
        self.distinct = set()
        self.assumptions = []
        self.quick = tier == "quick"

    # ---- model checking ---------------------------------------------------------------
    def model_check(self, module, cfg=None, expect_violation=None, **kw):
        log("[%s] TLC model check %s %s" % (self.prop, module, cfg or ""))
        r = tlc.model_check(module, cfg, **kw)
        log("[%s]   -> %d states generated, %d distinct, depth %d, %.1fs%s"
            % (self.prop, r.generated, r.distinct, r.depth, r.wall,
               ", violated: %s" % r.violated if r.violated else ""))
        if expect_violation is not None:
            # a negative model: the invariant must be refuted, otherwise it is vacuous
            if expect_violation not in r.violated:
                raise tlc.TLCError("negative model %s/%s was expected to violate %s but TLC reported %s"
                                   % (module, cfg, expect_violation, r.violated or "no violation"))
            self.neg.append({"module": module, "cfg": cfg, "refuted": expect_violation,
                             "states": r.distinct})
            return r
        self.mc.append(r)
        if not r.finished and not r.violated:
            raise tlc.TLCError("TLC did not finish %s/%s:\n%s" % (module, cfg, r.out[-2000:]))
        for inv in r.violated:
            self.violation(inv.split("_")[0] if inv[:1] == "C" and inv[1:3].isdigit() else self.prop,
                           "Model:" + inv, "model:%s:%s" % (module, inv),
                           "TLC reports %s violated in %s/%s (the specification itself lacks the property)"
                           % (inv, module, cfg), {"kind": "model", "module": module, "cfg": cfg,
                                                  "tlc_tail": r.out[-4000:]})
        return r

    # ---- trace validation ---------------------------------------------------------------
    def validate(self, label, module, traces, recipes=None, sigfn=None, describe=None, **kw):
        """traces[i] is a list of events; recipes[i] regenerates trace i (for replay)."""
        log("[%s] TLC trace validation %s: %d traces, %d events"
            % (self.prop, label, len(traces), sum(len(t) for t in traces)))
        v = tlc.validate(module, traces, **kw)
        log("[%s]   -> %d events accepted step by step in %.1fs, %d failing events, %d notes"
            % (self.prop, v.events, v.wall, len(v.fails), len(v.notes)))
        self.val.append((label, v))
        for ti, n, clauses in v.notes:
            for c in clauses:
                self.notes[c] = self.notes.get(c, 0) + 1
                ex = self.extra.setdefault("note_examples", {})
                if c[:2] == "X:" and len(ex.setdefault(c, [])) < 2:
                    ex[c].append({"recipe": recipes[ti] if recipes else None, "event_index": n})
        for ti, n, clauses in v.fails:
            for c in clauses:
                p = c.split(":")[0]
                if p != self.prop:
                    self.other[c] = self.other.get(c, 0) + 1
                    continue
                ev = traces[ti][n]
                sig = sigfn(c, ev, traces[ti]) if sigfn else c
                what = describe(c, ev, traces[ti]) if describe else "clause %s fails" % c
                self.violation(p, c, sig, what,
                               {"kind": "trace", "module": module, "clause": c, "event_index": n,
                                "recipe": recipes[ti] if recipes else None, "label": label,
                                "trace": traces[ti] if sum(len(json.dumps(e)) for e in traces[ti]) < 200000 else traces[ti][max(0, n - 2):n + 1]})
        return v

    def violation(self, prop, clause, sig, what, case):
        self.violations.append(Violation(prop, clause, sig, what, case))

    def add_sample(self, s, limit=6):
        if len(self.samples) < limit:
            self.samples.append(s)

    def skip(self, why, k=1):
        self.skipped[why] = self.skipped.get(why, 0) + k

    # ---- finishing ----------------------------------------------------------------------------
    def finish(self, rule, level="model_checking"):
        findings = load_findings()
        known = [f for f in findings if f.get("status") == "known" and f.get("property") == self.prop]
        reported, known_hit = [], {}
        seen = set()
        for v in self.violations:
            if v.prop != self.prop:
                continue
            k = next((f for f in known if f.get("signature") == v.sig), None)
            if k is not None:
                known_hit.setdefault(k["signature"], [k, 0])[1] += 1
                continue
            if v.sig in seen:       # one replay file per distinct signature
                continue
            seen.add(v.sig)
            reported.append(v)
        os.makedirs(os.path.join(OUT, "replay"), exist_ok=True)
        for old in os.listdir(os.path.join(OUT, "replay")):       # replay files of earlier runs of this check
            if old.startswith(self.prop + "-"):
                os.remove(os.path.join(OUT, "replay", old))
        lines = []
        for v in reported[:20]:
            h = hashlib.sha1((v.sig + json.dumps(v.case, sort_keys=True, default=str)).encode()).hexdigest()[:12]
            path = os.path.join(OUT, "replay", "%s-%s.json" % (self.prop, h))
            with open(path, "w") as f:
                json.dump({"property": self.prop, "clause": v.clause, "signature": v.sig, "what": v.what,
                           "case": v.case}, f, indent=1, default=str)
            lines.append("VIOLATION property=%s replay=%s" % (self.prop, path))
            log("[%s] %s: %s" % (self.prop, v.clause, v.what[:900]))
        for sig, (k, cnt) in known_hit.items():
            print("KNOWN-FINDING: property=%s %s (%d occurrences this run)" % (self.prop, k.get("what", sig), cnt))
        nviol = len([v for v in self.violations if v.prop == self.prop and
                     not any(f.get("signature") == v.sig for f in known)])
        states = sum(r.distinct for r in self.mc)
        trans = sum(r.generated for r in self.mc)
        events = sum(v.events for _, v in self.val)
        traces = sum(v.traces for _, v in self.val)
        cov = {
            "states": states,
            "transitions": trans,
            "traces_validated_against_impl": traces,
            "events_validated_against_spec": events,
            "spec_edges_replayed_into_impl": sum(self.replayed.values()),
            "evaluations": events + sum(self.replayed.values()),
            "distinct_nontrivial": len(self.distinct),
            "rule": rule,
            "samples": self.samples or [{"note": "no sample recorded"}],
            "exhaustive": False,
            "model_checking_runs": [r.summary() for r in self.mc],
            "negative_models_refuted": self.neg,
            "trace_validation_runs": [{"label": lb, "traces": v.traces, "events": v.events,
                                       "failing_events": len(v.fails), "tlc_states": v.tlc_states,
                                       "wall_s": round(v.wall, 2)} for lb, v in self.val],
            "replay_runs": self.replayed,
            "skipped_by_precondition": self.skipped,
            "failures_of_other_properties_seen": self.other,
            "conformance_notes": self.notes,
            "known_findings_hit": {s: c for s, (k, c) in known_hit.items()},
        }
        cov.update(self.extra)
        ev = {
            "property_id": self.prop, "tier": self.tier, "seed": self.seed, "level": level,
            "coverage": cov,
            "assumptions": self.assumptions or [
                "TLC 1.8 evaluates the specification correctly",
                "Python re implements the modelled token subset; Biopython SeqRecord/Restriction/GenBank I/O are trusted where the spec does not re-derive them",
                "harness projection functions (harness/project.py) read public attributes faithfully"],
            "wall_s": round(time.time() - self.t0, 2),
            "violations": nviol,
        }
        os.makedirs(EVID, exist_ok=True)
        with open(os.path.join(EVID, "%s.json" % self.prop), "w") as f:
            json.dump(ev, f, indent=1, default=str)
        for ln in lines:
            print(ln)
        sys.stdout.flush()
        log("[%s] %s tier, seed %d: %d states / %d transitions model-checked, %d traces (%d events) validated, "
            "%d edges replayed, %d violations (%d known), %.0fs"
            % (self.prop, self.tier, self.seed, states, trans, traces, events, sum(self.replayed.values()),
               nviol, sum(c for _, c in known_hit.values()), time.time() - self.t0))
        return 1 if lines else 0


def generic_replay(rec, execute):
    """Re-execute the recipe of a recorded violation on the current tree and re-validate it.
    Returns True when the recorded clause still fails."""
    case = rec["case"]
    trace = execute(case["recipe"])
    v = tlc.validate(case["module"], [trace], shards=1)
    failing = sorted({c for _, _, cl in v.fails for c in cl})
    log("replay: %d events re-executed on the current tree; failing clauses now: %s" % (len(trace), failing or "none"))
    return rec["clause"] in failing
