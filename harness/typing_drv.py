"""Driving the typing API (is_valid / overhang_* / target_sequence / placeholder_sequence)
and logging Typing events for spec/Trace_Typing.tla."""
import signal

from . import classes, dna, loader


class Hang(Exception):
    pass


def _alarm(signum, frame):
    raise Hang()


def guarded(fn, seconds=20):
    """wall-clock guard: a hang is a failed Total clause, not a machinery error"""
    old = signal.signal(signal.SIGALRM, _alarm)
    signal.setitimer(signal.ITIMER_REAL, seconds)
    try:
        return fn()
    finally:
        signal.setitimer(signal.ITIMER_REAL, 0)
        signal.signal(signal.SIGALRM, old)


def record(seq, circular=True, id_="rec"):
    loader.load()
    from Bio.Seq import Seq
    from Bio.SeqRecord import SeqRecord
    from moclo.record import CircularRecord
    if circular and id_ is None:          # built in memory without identifiers (Biopython's placeholders)
        return CircularRecord(Seq(seq))
    if circular:
        return CircularRecord(Seq(seq), id=id_, name=id_)
    return SeqRecord(Seq(seq), id=id_, name=id_, annotations={"topology": "linear"})


KEEP = []          # wrappers are kept alive for the duration of one event (caches keyed on live objects must not mix them up)


def query(cls, rec):
    """All public typing queries of one class on one record, never raising."""
    from moclo import errors
    res = {"valid": False, "exc": "", "up": [], "down": [], "tgt": [], "ph": [], "qexc": [], "qinv": True, "again": True, "tgtq": []}
    try:
        ent = cls(rec)
        KEEP.append(ent)
        v = guarded(ent.is_valid)
        if v is True or v is False:
            res["valid"] = v
        else:
            res["exc"] = "NonBool:" + type(v).__name__
    except BaseException as ex:  # noqa
        res["exc"] = type(ex).__name__
        return res
    qs = [("up", "overhang_start"), ("down", "overhang_end"), ("tgt", "target_sequence")]
    if classes.role_of(cls) == "vector":
        qs.append(("ph", "placeholder_sequence"))
    for key, meth in qs:
        try:
            x = guarded(getattr(ent, meth))
            res[key] = dna.enc(x.seq if hasattr(x, "seq") else x)
            res["qexc"].append("")
            if key == "tgt" and hasattr(x, "features"):
                # what the reported target says about itself: its feature table (types, places, qualifiers)
                import json as _json
                res["tgtq"] = sorted("%s|%s|%s" % (f.type, str(f.location), _json.dumps({k2: [str(v) for v in (vv if isinstance(vv, (list, tuple)) else [vv])]
                                                                                              for k2, vv in sorted(f.qualifiers.items())}, sort_keys=True))
                                     for f in x.features)
        except BaseException as ex:  # noqa
            res["qexc"].append(type(ex).__name__)
            if not isinstance(ex, errors.InvalidSequence):
                res["qinv"] = False
    # the same wrapper asked once more, after the other queries
    try:
        res["again"] = bool(guarded(ent.is_valid)) == res["valid"]
    except BaseException:  # noqa
        res["again"] = False
    return res


def transform(seq, twin):
    by = twin["by"]
    if by == "rot":
        k = twin["k"] % len(seq) if seq else 0
        return seq[-k:] + seq[:-k] if k else seq
    if by == "rc":
        return dna.rc(seq)
    if by == "case":
        mask = twin["mask"]
        return "".join(c.lower() if mask[i % len(mask)] == "1" else c.upper() for i, c in enumerate(seq))
    raise ValueError(by)


def exec_typing(r):
    """recipe {cls, seq, twin?, gen?} -> [Typing event]"""
    loader.load()
    del KEEP[:]
    cls = classes.build(r["cls"])
    seq = r["seq"]
    if r.get("linear"):
        return [{"ev": "LinearTyping", "cls": classes.describe(cls), "seq": dna.enc(seq), "res": query(cls, record(seq, circular=False))}]
    if r.get("plain"):
        # a circular plasmid in a plain Bio.SeqRecord (what Bio.SeqIO.read hands over): topology annotation "circular"
        # (any letter case) or no topology annotation at all, which the typing code reads as circular too
        from Bio.Seq import Seq
        from Bio.SeqRecord import SeqRecord
        ann = {"circular": {"topology": "circular", "molecule_type": "DNA"}, "upper": {"topology": "Circular"}, "absent": {}}[r["plain"]]
        tw = r.get("twin") or {"by": "rot", "k": 0}
        mk = lambda x: SeqRecord(Seq(x), id="rec", name="rec", annotations=dict(ann))   # noqa: E731
        return [{"ev": "PlainTyping", "cls": classes.describe(cls), "seq": dna.enc(seq), "res": query(cls, mk(seq)),
                 "twin": {"by": "rot", "k": tw["k"], "res": query(cls, mk(transform(seq, tw)))}}]
    rec1 = record(seq)
    ev = {"ev": "Typing", "cls": classes.describe(cls), "seq": dna.enc(seq), "res": query(cls, rec1),
          "twin": {"by": "none", "k": 0, "res": {}}, "gen": {"has": False, "toks": [], "res": {}}}
    tw = r.get("twin")
    if tw:
        if tw["by"] == "rc" and tw.get("via") == "copy":
            # the other strand made the way that keeps id and annotations: a shallow copy of the record that was just typed,
            # with its sequence replaced
            import copy as _copy
            rec2 = _copy.copy(rec1)
            rec2.seq = rec1.seq.reverse_complement()
        elif tw["by"] == "rot" and tw.get("via") == "api":
            # rotate with the implementation's own operator (C02: record >> k)
            rec2 = record(seq) >> tw["k"]
        else:
            rec2 = record(transform(seq, tw))
        ev["twin"] = {"by": tw["by"], "k": tw.get("k", 0), "res": query(cls, rec2)}
        if tw["by"] == "rot" and not ev["cls"]["toks"]:
            # a class whose pattern is outside the modelled language: the precondition of C02 ("exactly one occurrence") is
            # evaluated here with Python's re, independently of moclo.regex (see dna.occurrences_any_origin)
            ev["occ"] = dna.occurrences_any_origin(cls.structure(), seq)
    if r.get("gen"):
        g = classes.build(classes.generic_spec_for(cls))
        ev["gen"] = {"has": True, "toks": classes.describe(g)["toks"], "res": query(g, record(seq))}
    return [ev]


def exec_characterize(r):
    """recipe {base, seq} -> [Characterize event]: AbstractPart.characterize on a part base"""
    loader.load()
    import importlib
    from moclo import core
    from moclo._utils import isabstract
    keep = []
    if "kit" in r["base"]:
        base = getattr(importlib.import_module("moclo.kits." + r["base"]["kit"]), r["base"]["name"])
    else:
        u = r["base"]["user"]
        cutter = classes.cutter_of(u["enz"])
        rolebase = {"module": core.Entry, "vector": core.EntryVector}[u["role"]]
        base = type(str("UserPartBase"), (core.AbstractPart,), {"cutter": cutter})
        for i, sg in enumerate(u["sigs"]):
            keep.append(type(str("UserPart%d" % i), (base, rolebase), {"signature": tuple(sg)}))
    for i, sg in enumerate(r["base"].get("subsigs", [])):
        # a user hierarchy that specialises a CONCRETE kit type: the type itself stays a candidate of its own characterize
        keep.append(type(str("%sSub%d" % (base.__name__, i)), (base,), {"signature": tuple(sg)}))
    cands = list(base.__subclasses__())
    if not isabstract(base):
        cands.append(base)

    def ask(seq):
        res = {"cls": "", "exc": ""}
        try:
            ent = guarded(lambda: base.characterize(record(seq)))
            res["cls"] = type(ent).__name__
            res["valid"] = bool(ent.is_valid())
        except RuntimeError:
            res["exc"] = "RuntimeError"
            res["valid"] = False
        except BaseException as ex:  # noqa
            res["exc"] = type(ex).__name__
            res["valid"] = False
        return res
    ev = {"ev": "Characterize", "seq": dna.enc(r["seq"]), "base": base.__name__,
          "cands": [classes.describe(c) for c in cands], "res": ask(r["seq"]), "twin": {"by": "none", "res": {}}}
    tw = r.get("twin")
    if tw:          # the same plasmid in another spelling / at another origin
        ev["twin"] = {"by": tw["by"], "res": ask(transform(r["seq"], tw))}
    del keep
    return [ev]
