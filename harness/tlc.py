"""Running TLC: model checking of MC_* configurations and validation of implementation traces.

Nothing here decides a property: TLC does.  This module only starts TLC, shards ndjson
traces over several TLC processes, and parses TLC's own summary and the total-verdict lines
(`<<"FAIL", line, {clauses}>>`, `<<"NOTE", ...>>`, `<<"DONE", events>>`) printed by the trace
specifications.
"""
import json
import os
import re
import shutil
import subprocess
import tempfile
import time
from concurrent.futures import ThreadPoolExecutor

VERIF = os.path.dirname(os.path.dirname(os.path.abspath(__file__)))
SPEC = os.path.join(VERIF, "spec")
JARS = "/opt/veriftools/tla/tla2tools.jar:/opt/veriftools/tla/CommunityModules-deps.jar"
NCPU = os.cpu_count() or 4


class TLCError(RuntimeError):
    """TLC itself failed (parse error, evaluation error, crash): machinery failure, exit 2."""


def _java(heap):
    return ["java", "-Xmx" + heap, "-Xss512m", "-XX:+UseParallelGC", "-cp", JARS, "tlc2.TLC"]


def _tmpdir(tag):
    return tempfile.mkdtemp(prefix="verif-%s-" % tag, dir=os.environ.get("VERIF_TMP", "/tmp"))


_RE_STATES = re.compile(r"(\d+) states generated, (\d+) distinct states found, (\d+) states left on queue")
_RE_DEPTH = re.compile(r"The depth of the complete state graph search is (\d+)")
_RE_INV = re.compile(r"Invariant (\S+) is violated")
_RE_PROP = re.compile(r"(?:Action property|Temporal property|property) (\S+) (?:is|was) violated")
_RE_COV = re.compile(r"^<(\w+) line \d+, col \d+ to line \d+, col \d+ of module (\w+)>: (\d+):(\d+)", re.M)


class MCResult(object):
    def __init__(self, module, cfg, out, wall, rc):
        self.module, self.cfg, self.out, self.wall, self.rc = module, cfg, out, wall, rc
        m = _RE_STATES.findall(out)
        self.generated, self.distinct, self.queue = (int(x) for x in m[-1]) if m else (0, 0, 0)
        d = _RE_DEPTH.search(out)
        self.depth = int(d.group(1)) if d else 0
        self.violated = _RE_INV.findall(out) + _RE_PROP.findall(out)
        self.finished = "Model checking completed" in out or "Finished in" in out
        self.error = None
        if rc != 0 and not self.violated:
            self.error = out[-3000:]
        # per-action coverage: action name -> (distinct, generated)
        self.coverage = {}
        for name, mod, a, b in _RE_COV.findall(out):
            self.coverage[name] = (int(a), int(b))

    @property
    def ok(self):
        return self.rc == 0 and not self.violated and self.error is None

    def summary(self):
        return {"module": self.module, "cfg": self.cfg, "states_generated": self.generated,
                "distinct_states": self.distinct, "depth": self.depth, "wall_s": round(self.wall, 2),
                "violated": self.violated, "actions": {k: v[1] for k, v in self.coverage.items()}}


def model_check(module, cfg=None, workers=None, heap="12g", timeout=3600, extra=(), env=None,
                coverage=False, simulate=None, dump=None):
    """Run TLC on spec/<module>.tla with spec/<cfg>.  Returns MCResult (never raises for a
    property violation; raises TLCError when TLC could not run the model)."""
    cfg = cfg or (module + ".cfg")
    meta = _tmpdir("mc")
    cmd = _java(heap) + ["-workers", str(workers or NCPU), "-metadir", meta, "-noGenerateSpecTE",
                         "-config", cfg]
    if coverage:
        cmd += ["-coverage", "1"]
    if simulate:
        cmd += ["-simulate", simulate]
    if dump:
        cmd += ["-dump", "dot,actionlabels", dump]
    cmd += list(extra) + [module]
    e = dict(os.environ)
    e.update(env or {})
    t0 = time.time()
    try:
        p = subprocess.run(cmd, cwd=SPEC, env=e, stdout=subprocess.PIPE, stderr=subprocess.STDOUT,
                           timeout=timeout, universal_newlines=True)
        out, rc = p.stdout, p.returncode
    except subprocess.TimeoutExpired as ex:
        out = (ex.stdout or b"").decode("utf8", "replace") if isinstance(ex.stdout, bytes) else (ex.stdout or "")
        out += "\nTIMEOUT after %ss" % timeout
        rc = 124
    finally:
        shutil.rmtree(meta, ignore_errors=True)
    r = MCResult(module, cfg, out, time.time() - t0, rc)
    if r.error is not None and not simulate:
        raise TLCError("TLC failed on %s/%s (rc=%s):\n%s" % (module, cfg, rc, r.error))
    return r


# ---------------------------------------------------------------------------------------------
# trace validation

_RE_FAIL = re.compile(r'<<\s*"(FAIL|NOTE)",\s*(\d+),\s*\{(.*?)\}\s*>>', re.S)      # TLC wraps long values over lines
_RE_DONE = re.compile(r'<<"DONE", (-?\d+)>>')
_RE_L = re.compile(r"^/?\\? ?l = (\d+)", re.M)


def _errtext(out):
    i = out.find("Error:")
    if i < 0:
        return out[-2500:]
    j = out.find("The behavior up to this point", i)
    return out[i:(j if j > 0 else i + 3000)][:3000]


class ValResult(object):
    def __init__(self):
        self.fails = []      # (trace_index, event_index (0-based), [clauses])
        self.notes = []      # same shape, conformance-only remarks (never alarms)
        self.events = 0
        self.traces = 0
        self.tlc_states = 0
        self.wall = 0.0
        self.errors = []     # spec evaluation errors: (trace_index, event_index, text)


def _run_shard(module, cfg, path, heap, timeout, extra_env):
    meta = _tmpdir("tv")
    cmd = _java(heap) + ["-workers", "1", "-metadir", meta, "-noGenerateSpecTE", "-config", cfg, module]
    e = dict(os.environ)
    e["TRACE_FILE"] = path
    e.update(extra_env or {})
    try:
        p = subprocess.run(cmd, cwd=SPEC, env=e, stdout=subprocess.PIPE, stderr=subprocess.STDOUT,
                           timeout=timeout, universal_newlines=True)
        return p.returncode, p.stdout
    except subprocess.TimeoutExpired as ex:
        return 124, "TIMEOUT"
    finally:
        shutil.rmtree(meta, ignore_errors=True)


def validate(module, traces, cfg=None, shards=None, heap="3g", timeout=3000, keep=None, env=None):
    """Validate implementation traces against spec/<module>.tla (a Trace_* module).

    traces: list of traces; a trace is a list of event dicts (json-serialisable, without
    'tid'/'n', which are added here).  Returns ValResult; raises TLCError on machinery failure.
    """
    cfg = cfg or (module + ".cfg")
    res = ValResult()
    traces = [t for t in traces if t]
    if not traces:
        return res
    nsh = max(1, min(shards or NCPU, len(traces)))
    # balance shards by serialized size
    lines = []
    for ti, tr in enumerate(traces):
        ls = []
        for n, ev in enumerate(tr):
            d = dict(ev)
            d["tid"] = ti
            d["n"] = n + 1
            ls.append(json.dumps(d, separators=(",", ":")))
        lines.append(ls)
    order = sorted(range(len(traces)), key=lambda i: -sum(len(x) for x in lines[i]))
    bins = [[] for _ in range(nsh)]
    load = [0] * nsh
    for i in order:
        b = load.index(min(load))
        bins[b].append(i)
        load[b] += sum(len(x) for x in lines[i]) + 200 * len(lines[i])
    tmp = keep or _tmpdir("tr")
    os.makedirs(tmp, exist_ok=True)
    jobs = []
    for b, idxs in enumerate(bins):
        if not idxs:
            continue
        idxs.sort()
        path = os.path.join(tmp, "shard%02d.ndjson" % b)
        index = []
        with open(path, "w") as f:
            for ti in idxs:
                for n, s in enumerate(lines[ti]):
                    f.write(s + "\n")
                    index.append((ti, n))
        jobs.append((path, index))
    t0 = time.time()
    with ThreadPoolExecutor(max_workers=nsh) as ex:
        futs = [ex.submit(_run_shard, module, cfg, path, heap, timeout, env) for path, _ in jobs]
        outs = [f.result() for f in futs]
    res.wall = time.time() - t0
    try:
        for (path, index), (rc, out) in zip(jobs, outs):
            done = _RE_DONE.search(out)
            if rc != 0 or not done or int(done.group(1)) != len(index):
                ls = _RE_L.findall(out)
                where = index[int(ls[-1]) - 1] if ls and 0 < int(ls[-1]) <= len(index) else None
                raise TLCError("trace validation with %s did not consume %s (rc=%s, done=%s, at %s):\n%s"
                               % (module, path, rc, done.group(1) if done else None, where, _errtext(out)))
            found = _RE_FAIL.findall(out)
            if len(found) != out.count('"FAIL"') + out.count('"NOTE"'):
                raise TLCError("could not parse every verdict line of %s:\n%s" % (path, out[-3000:]))
            for kind, l, body in found:
                ti, n = index[int(l) - 1]
                clauses = re.findall(r'"([^"]+)"', body)
                (res.fails if kind == "FAIL" else res.notes).append((ti, n, clauses))
            m = _RE_STATES.findall(out)
            if m:
                res.tlc_states += int(m[-1][1])
            res.events += len(index)
        res.traces = len(traces)
    finally:
        if keep is None:
            shutil.rmtree(tmp, ignore_errors=True)
    res.fails.sort()
    res.notes.sort()
    return res
