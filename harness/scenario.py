"""A generic history fuzzer: one pool of live objects (records, wrappers) and a random sequence of operations on
them - wrap, query, re-query, rotate (also by 0 and by the length, which hand back the same object), reverse
complement, edit a feature table in place, assemble with wrappers that were already used.  Every operation is logged as
the ordinary event of its kind (Typing / Rot / RevComp / Assemble) carrying the CURRENT state of its inputs, so the trace
specifications judge each step on its own; anything a step remembers from the history (caches on objects or classes,
shared sub-objects, results computed once and reused) shows up as a disagreement.

Returns {"typing": [...], "record": [...], "assembly": [...]} - lists of traces for Trace_Typing / Trace_Record / Trace_Assembly."""
from . import asm_drv, classes, dna, enz as enzmod, gen, loader, project, typing_drv
from .props import asm_common


def query_wrapper(ent, cls):
    """the typing queries on an EXISTING wrapper (same shape as typing_drv.query)"""
    from moclo import errors
    res = {"valid": False, "exc": "", "up": [], "down": [], "tgt": [], "ph": [], "qexc": [], "qinv": True, "again": True}
    try:
        v = typing_drv.guarded(ent.is_valid)
        if v is True or v is False:
            res["valid"] = v
        else:
            res["exc"] = "NonBool:" + type(v).__name__
    except BaseException as ex:  # noqa
        res["exc"] = type(ex).__name__
        return res
    qs = [("up", "overhang_start"), ("down", "overhang_end"), ("tgt", "target_sequence")]
    if classes.role_of(cls) == "vector":
        qs.append(("ph", "placeholder_sequence"))
    for key, meth in qs:
        try:
            x = typing_drv.guarded(getattr(ent, meth))
            res[key] = dna.enc(x.seq if hasattr(x, "seq") else x)
            res["qexc"].append("")
        except BaseException as ex:  # noqa
            res["qexc"].append(type(ex).__name__)
            if not isinstance(ex, errors.InvalidSequence):
                res["qinv"] = False
    try:
        res["again"] = bool(typing_drv.guarded(ent.is_valid)) == res["valid"]
    except BaseException:  # noqa
        res["again"] = False
    return res


def run(rng, nscen, steps=14):
    loader.load()
    from Bio.SeqFeature import FeatureLocation, SeqFeature
    out = {"typing": [], "record": [], "assembly": []}
    geoms = asm_common.tc.geometries()
    for _ in range(nscen):
        espec, G = rng.choice(geoms)
        nm = rng.randint(1, max(1, min(3, G.capacity() - 1)))
        r = asm_common.case_recipe(G, espec, rng, nm, annotate=True, refs=rng.random() < 0.4)
        if r is None:
            continue
        vcls, mclss, vrec, mrecs = asm_drv.build_inputs(r)
        s, o, k = enzmod.geometry(vcls.cutter)
        # pool: slot 0 = vector, 1.. = modules; each slot: current record object + (maybe) a wrapper
        recs = [vrec] + mrecs
        clss = [vcls] + mclss
        wraps = [None] * len(recs)
        graveyard = []                          # earlier wrappers, kept alive on purpose
        forced, forced_slot = [], None
        ttrace, rtrace, atrace = [], [], []
        for step in range(steps):
            i = rng.randrange(len(recs))
            op = forced.pop(0) if forced else rng.choice(["wrap", "query", "query", "rot0", "rot", "editfeat", "assemble", "assemble", "rc2", "setseq",
                                                           "rewrap", "copy", "look-edit-look"])
            if forced_slot is not None:
                i = forced_slot
                if not forced:
                    forced_slot = None
            rec, cls = recs[i], clss[i]
            if op == "look-edit-look":      # one object: typed, then its sequence is edited in place, then typed again through a new wrapper
                forced, forced_slot = ["setseq!", "query"], i
                op = "query"
            if op == "wrap" or (op == "query" and wraps[i] is None):
                try:
                    wraps[i] = cls(rec)
                except Exception:  # noqa
                    continue
            if op == "query":
                res = query_wrapper(wraps[i], cls)
                ttrace.append({"ev": "Typing", "cls": classes.describe(cls), "seq": dna.enc(str(rec.seq)), "res": res,
                               "cspec": {"generic": "vector" if i == 0 else "module", "enz": espec},
                               "twin": {"by": "none", "k": 0, "res": {}}, "gen": {"has": False, "toks": [], "res": {}}})
            elif op in ("rot0", "rot"):
                n = len(rec.seq)
                kk = rng.choice([0, n, -n, 2 * n]) if op == "rot0" else rng.randrange(-n, 2 * n)
                pre = project.project(rec)
                try:
                    new = rec >> kk if rng.random() < 0.5 else rec << (-kk)
                except Exception:  # noqa
                    continue
                ev = {"ev": "Rot", "dir": "R", "k": kk, "pre": pre, "exc": "", "post": project.project(new)}
                if rtrace:
                    ev["reset"] = True          # each step is judged on its own
                rtrace.append(ev)
                if new is not rec:
                    recs[i] = new
                    wraps[i] = None             # a new record object needs a new wrapper
            elif op == "rc2":                   # there and back again: the same strand, new objects
                pre = project.project(rec)
                try:
                    mid = rec.reverse_complement(id=True, name=True, description=True, annotations=True, dbxrefs=True)
                    back = mid.reverse_complement(id=True, name=True, description=True, annotations=True, dbxrefs=True)
                except Exception:  # noqa
                    continue
                ev = {"ev": "RevComp", "pre": pre, "exc": "", "post": project.project(mid), "peek": True}
                if rtrace:
                    ev["reset"] = True
                rtrace.append(ev)
                recs[i] = back
                wraps[i] = None
            elif op in ("setseq", "setseq!"):
                # the sequence of a live record is replaced in place (another insert, a destroyed site, another origin);
                # wrappers made before stay alive in `graveyard`, a new wrapper is needed for new answers
                from Bio.Seq import Seq
                old = str(rec.seq)
                how = rng.random()
                up_ = old.upper()
                sites = [j for j in range(len(old)) if (up_ + up_)[j:j + len(s)] in (s.upper(), dna.rc(s.upper()))]
                if op == "setseq!" and sites and how < 0.7:
                    # a recognition site is destroyed (one letter), or a third one appears
                    if how < 0.4:
                        j = (rng.choice(sites) + rng.randrange(len(s))) % len(old)
                        new = old[:j] + rng.choice([x for x in "ACGT" if x != old[j].upper()]) + old[j + 1:]
                    else:
                        j = rng.randrange(len(old))
                        new = old[:j] + s + old[j:]
                elif how < 0.4:
                    new = gen.rotate(old, rng.randrange(1, len(old)))
                elif how < 0.7:
                    new = gen.mutate(old, rng)
                else:
                    new = old[: len(old) // 2] + gen.rnd(rng.randint(1, 5), rng) + old[len(old) // 2:]
                try:
                    rec.seq = Seq(new)
                    rec.features[:] = [f for f in rec.features if int(f.location.end) <= len(new)]
                except Exception:  # noqa
                    continue
                if wraps[i] is not None:
                    graveyard.append(wraps[i])
                wraps[i] = None
            elif op == "rewrap":                 # a second wrapper of the same class around the same record object, the first one still alive
                if wraps[i] is not None:
                    graveyard.append(wraps[i])
                try:
                    wraps[i] = cls(rec)
                except Exception:  # noqa
                    wraps[i] = None
            elif op == "copy":                   # work goes on with a copy of the record
                import copy as _copy
                try:
                    recs[i] = _copy.deepcopy(rec) if rng.random() < 0.5 else type(rec)(rec)
                except Exception:  # noqa
                    continue
                if wraps[i] is not None:
                    graveyard.append(wraps[i])
                wraps[i] = None
            elif op == "editfeat":
                n = len(rec.seq)
                if rec.features and rng.random() < 0.5:
                    del rec.features[rng.randrange(len(rec.features))]
                else:
                    a = rng.randrange(n)
                    rec.features.append(SeqFeature(FeatureLocation(a, min(n, a + rng.randint(1, 6)), strand=rng.choice([1, -1])),
                                                   type="misc_feature", qualifiers={"label": ["later%d" % step]}))
            elif op == "assemble":
                for j in range(len(recs)):
                    if wraps[j] is None:
                        try:
                            wraps[j] = clss[j](recs[j])
                        except Exception:  # noqa
                            wraps[j] = None
                if any(w is None for w in wraps):
                    continue
                before = [asm_drv.snapshot(x) for x in recs]
                proj = [asm_drv.rec_proj(x) for x in recs]
                outc = asm_drv.call_assemble(vcls, mclss, recs[0], recs[1:], "scen", "scen", wrappers=(wraps[0], wraps[1:]))
                outc.pop("_product", None)
                after = [asm_drv.snapshot(x) for x in recs]
                atrace.append({"ev": "Assemble", "enz": {"site": dna.enc(s), "off": o, "ovh": k}, "vrole": "vector", "generic": True,
                               "vec": proj[0], "mods": proj[1:], "args": {"id": "scen", "name": "scen"}, "out": outc,
                               "fault": {"at": 0, "exc": ""}, "before": before, "after": after,
                               "rep": {"has": False, "out": {}, "after": []}, "twin": {"by": "none", "out": {}}})
        for name, tr in (("typing", ttrace), ("record", rtrace), ("assembly", atrace)):
            if tr:
                out[name].append(tr)
    return out
