"""Load the code under test from the current working tree (no install, no build).

Mirrors tests/__init__.py of the repository: <repo>/moclo first on sys.path, then the
five kit distributions are grafted onto the moclo.kits / moclo.registry namespaces.
VERIF_REPO overrides /repo (used by the self-test on scratch copies).
"""
import os
import sys
import warnings

REPO = os.path.abspath(os.environ.get("VERIF_REPO", "/repo"))
KITS = ["cidar", "ytk", "ecoflex", "moclo", "plant"]
_loaded = False


def load():
    global _loaded
    if _loaded:
        return
    os.environ.setdefault("MOCLO_VERIF", "1")   # hook guard (no hooks exist so far)
    sys.path.insert(0, os.path.join(REPO, "moclo"))
    warnings.filterwarnings("ignore", category=DeprecationWarning)
    import moclo.kits
    import moclo.registry
    for ext in KITS:
        d = os.path.join(REPO, "moclo-{}".format(ext))
        moclo.kits.__path__.append(os.path.join(d, "moclo", "kits"))
        moclo.registry.__path__.append(os.path.join(d, "moclo", "registry"))
    import moclo
    assert os.path.abspath(moclo.__file__).startswith(REPO), moclo.__file__
    _loaded = True
