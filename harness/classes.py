"""Class descriptors: how a typing class of the code under test is named in recipes, built,
and projected to the spec's  cls = [name, role, toks, enz, sig, flank, generic]."""
import importlib

from . import dna, enz as enzmod, loader

_dyn = {}


def cutter_of(spec):
    loader.load()
    if "syn" in spec:
        s, o, k = spec["syn"]
        return enzmod.synthetic(s, o, k)
    import Bio.Restriction
    return getattr(Bio.Restriction, spec["name"])


def enz_spec(e):
    """recipe form of an enzyme object"""
    if e.__name__.startswith("Syn"):
        s, o, k = enzmod.geometry(e)
        return {"syn": [s, o, k]}
    return {"name": e.__name__}


def build(spec, fresh=False):
    """recipe class spec -> class object of the code under test."""
    loader.load()
    from moclo import core
    if "kit" in spec:
        mod = importlib.import_module("moclo.kits." + spec["kit"])
        return getattr(mod, spec["name"])
    if "subclass_of" in spec:       # a user subclass of a kit class that only declares another cutter
        parent = build(spec["subclass_of"])
        key = repr(sorted(spec.items(), key=str))
        if key not in _dyn:
            body = {"cutter": cutter_of(spec["enz"])}
            if spec.get("extra_group"):
                # ... or that writes its own structure(): the parent's, followed by one more capture group (a barcode, say)
                pst = parent.structure() + spec["extra_group"]
                body["structure"] = staticmethod(lambda pst=pst: pst)
            _dyn[key] = type(str(("Barcoded" if spec.get("extra_group") else "Custom") + parent.__name__ + spec["enz"].get("name", "Syn")), (parent,), body)
        return _dyn[key]
    if "sibling_of" in spec:        # a user class written next to a kit class: same bases, a signature of its own
        model = build(spec["sibling_of"])
        key = repr(sorted(spec.items(), key=str))
        if key not in _dyn:
            _dyn[key] = type(str(spec.get("name") or ("Lab" + model.__name__)), model.__bases__, {"signature": tuple(spec["sig"])})
        return _dyn[key]
    key = repr(sorted(spec.items(), key=str))
    if not fresh and key in _dyn:
        return _dyn[key]
    cutter = cutter_of(spec["enz"])
    if "generic" in spec:
        base = {"module": core.Entry, "vector": core.EntryVector}[spec["generic"]]
        cls = type(str("Gen" + spec["generic"].title() + cutter.__name__), (base,), {"cutter": cutter})
    else:
        base = {"module": core.Entry, "vector": core.EntryVector}[spec["part"]]
        cls = type(str("Part" + spec["part"].title() + cutter.__name__ + "_".join(spec["sig"])),
                   (core.AbstractPart, base), {"cutter": cutter, "signature": tuple(spec["sig"])})
    if not fresh:
        _dyn[key] = cls
    return cls


def kit_classes():
    """All concrete typing classes of the five kits: list of (spec, cls)."""
    loader.load()
    from moclo._utils import isabstract
    from moclo.core._structured import StructuredRecord
    out = []
    for kit in loader.KITS:
        mod = importlib.import_module("moclo.kits." + kit)
        for name in sorted(dir(mod)):
            c = getattr(mod, name)
            if isinstance(c, type) and issubclass(c, StructuredRecord) and c.__module__ == mod.__name__:
                try:
                    if isabstract(c):
                        continue
                    c.structure()
                except Exception:  # noqa
                    continue
                out.append(({"kit": kit, "name": name}, c))
    return out


def role_of(cls):
    from moclo.core import AbstractVector
    return "vector" if AbstractVector in cls.__mro__ else "module"     # (not issubclass: ABC caches are slow with many dynamic classes)


def generic_spec_for(cls):
    """the signature-free class with the same enzyme and role"""
    return {"generic": role_of(cls), "enz": enz_spec(cls.cutter)}


def signature_typed(cls):
    """True when the class derives its structure from its signature (AbstractPart.structure)."""
    from moclo.core import AbstractPart
    if AbstractPart not in cls.__mro__ or cls.signature is NotImplemented:
        return False
    f = cls.structure.__func__ if hasattr(cls.structure, "__func__") else cls.structure
    impl = None
    for k in cls.__mro__:
        if "structure" in k.__dict__:
            impl = k
            break
    if impl is AbstractPart or (impl is not None and impl.__module__.startswith("moclo.core")):
        # a class that DECLARES a signature is a part type, whichever core class its structure() resolves to (a base-class
        # order that lets a signature-free structure win is exactly what C05 forbids)
        return True
    # kit overrides that merely call super().structure()
    try:
        import inspect
        src = inspect.getsource(impl.__dict__["structure"])
        return "super(" in src and "return super" in src
    except Exception:  # noqa
        return False


def describe(cls, name=None):
    """class object -> spec-side descriptor (json)."""
    from moclo.core import AbstractPart
    from moclo.core.modules import AbstractModule
    from moclo.core.vectors import AbstractVector
    role = role_of(cls)
    st = cls.structure()
    sigt = signature_typed(cls)
    own = None
    for k in cls.__mro__:
        if "structure" in k.__dict__:
            own = k
            break
    derived = own in (AbstractModule, AbstractVector, AbstractPart) or sigt
    s, o, k = enzmod.geometry(cls.cutter)
    return {
        "name": name or cls.__name__, "role": role, "toks": dna.tokens_or_empty(st),
        "enz": {"site": dna.enc(s), "off": o, "ovh": k},
        "sig": [dna.enc(cls.signature[0].upper()), dna.enc(cls.signature[1].upper())] if sigt else [],
        "flank": bool(derived and role == "module"),
        "generic": bool(derived and not sigt),
    }
