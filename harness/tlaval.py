"""A small parser for TLA+ values as printed by TLC (state dumps, -simulate files)."""
import re

_TOK = re.compile(r'\s*(<<|>>|\|->|:>|@@|[\[\]{}(),]|"(?:[^"\\]|\\.)*"|-?\d+|[A-Za-z_][A-Za-z0-9_!]*)')


class Parser(object):
    def __init__(self, text):
        self.toks = _TOK.findall(text)
        self.i = 0

    def peek(self):
        return self.toks[self.i] if self.i < len(self.toks) else None

    def eat(self, t=None):
        x = self.toks[self.i]
        if t is not None and x != t:
            raise ValueError("expected %r got %r at %d" % (t, x, self.i))
        self.i += 1
        return x

    def value(self):
        t = self.peek()
        if t == "<<":
            self.eat()
            out = []
            while self.peek() != ">>":
                out.append(self.value())
                if self.peek() == ",":
                    self.eat()
            self.eat(">>")
            return out
        if t == "{":
            self.eat()
            out = []
            while self.peek() != "}":
                out.append(self.value())
                if self.peek() == ",":
                    self.eat()
            self.eat("}")
            return {"__set__": out}
        if t == "[":
            self.eat()
            d = {}
            while self.peek() != "]":
                k = self.eat()
                self.eat("|->")
                d[k] = self.value()
                if self.peek() == ",":
                    self.eat()
            self.eat("]")
            return d
        if t == "(":
            self.eat()
            d = {}
            while True:
                k = self.value()
                self.eat(":>")
                d[_key(k)] = self.value()
                if self.peek() == "@@":
                    self.eat()
                    continue
                break
            self.eat(")")
            return d
        self.eat()
        if t.startswith('"'):
            return t[1:-1]
        if t == "TRUE":
            return True
        if t == "FALSE":
            return False
        if re.match(r"-?\d+$", t):
            return int(t)
        return t     # model value / identifier


def _key(k):
    return k if isinstance(k, (str, int)) else repr(k)


def parse(text):
    return Parser(text).value()


_STATE = re.compile(r"^State \d+:.*$", re.M)


def parse_dump(path):
    """`tlc -dump <file>`: yields one dict per state (variable -> value)."""
    with open(path) as f:
        text = f.read()
    parts = _STATE.split(text)
    for block in parts[1:]:
        yield parse_state(block)


def parse_state(block):
    st = {}
    # conjuncts "/\ var = value" possibly spanning lines
    items = re.split(r"^/\\ ", block.strip(), flags=re.M)
    for it in items:
        it = it.strip()
        if not it:
            continue
        m = re.match(r"([A-Za-z_][A-Za-z0-9_]*) = (.*)$", it, re.S)
        if m:
            st[m.group(1)] = parse(m.group(2))
    return st
