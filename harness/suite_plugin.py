"""pytest plugin: records what the repository's OWN test suite does to the library, as trace events for the
trace specifications.  Nothing in the repository is edited: the public entry points are wrapped from outside
(this module is loaded with `-p harness.suite_plugin` on a scratch copy of the repository).

Recorded: every DNARegex.search (-> Trace_Regex), every is_valid() of a typing class (-> Trace_Typing, as a complete
fresh query of the same class on the same record, plus the value the test saw), every AbstractVector.assemble
(-> Trace_Assembly), rotations / reverse complements / membership tests of CircularRecord (-> Trace_Record)."""
import json
import os

from . import loader

OUT = os.environ.get("VERIF_SUITE_TRACE", "/tmp/verif-suite-trace")
_events = {"regex": [], "typing": [], "assembly": [], "record": []}
_depth = [0]
_seen_typing = set()


def pytest_configure(config):
    loader.load()
    from . import asm_drv, classes, dna, project, typing_drv
    from moclo import regex as mregex
    from moclo.core import _structured, vectors
    from moclo import record as mrecord

    # ---- DNARegex.search
    orig_search = mregex.DNARegex.search

    def search(self, string, pos=0, endpos=None, linear=True):
        kw = {} if endpos is None else {"endpos": endpos}
        m = orig_search(self, string, pos, linear=linear, **kw)
        if _depth[0] == 0 and len(_events["regex"]) < 4000:
            try:
                toks = dna.tokens(self.pattern)
                seq = str(string.seq) if hasattr(string, "seq") else str(string)
                circ = (not linear) or isinstance(string, mrecord.CircularRecord)
                ev = {"ev": "Search", "toks": toks, "seq": dna.enc(seq), "circ": circ, "pos": pos,
                      "endpos": 10 ** 6 if endpos is None else endpos}
                if m is None:
                    ev["res"] = {"ok": False, "s": 0, "e": 0, "spans": [], "groups": []}
                else:
                    g = m.match.re.groups
                    groups = []
                    for i in range(g + 1):
                        x = m.group(i)
                        groups.append(dna.enc(x.seq if hasattr(x, "seq") else x))
                    ev["res"] = {"ok": True, "s": m.start(), "e": m.end(), "spans": [list(m.span(i)) for i in range(g + 1)], "groups": groups}
                _events["regex"].append([ev])
            except Exception:  # noqa
                pass
        return m
    mregex.DNARegex.search = search

    # ---- is_valid
    orig_valid = _structured.StructuredRecord.is_valid

    def is_valid(self):
        seen = orig_valid(self)
        if _depth[0] == 0:
            _depth[0] += 1
            try:
                cls = type(self)
                seq = str(self.record.seq)
                key = (cls.__name__, hash(seq))
                topo = str(self.record.annotations.get("topology", "circular")).lower()
                if key not in _seen_typing and topo == "circular" and cls.__module__.startswith("moclo."):
                    _seen_typing.add(key)
                    res = typing_drv.query(cls, typing_drv.record(seq))
                    _events["typing"].append([{"ev": "Typing", "cls": classes.describe(cls), "seq": dna.enc(seq), "res": res, "seen": bool(seen),
                                               "twin": {"by": "none", "k": 0, "res": {}}, "gen": {"has": False, "toks": [], "res": {}}}])
            except Exception:  # noqa
                pass
            finally:
                _depth[0] -= 1
        return seen
    _structured.StructuredRecord.is_valid = is_valid

    # ---- assemble
    orig_assemble = vectors.AbstractVector.assemble

    def assemble(self, module, *modules, **kwargs):
        if _depth[0]:
            return orig_assemble(self, module, *modules, **kwargs)
        _depth[0] += 1
        try:
            mods = [module] + list(modules)
            inputs = [self.record] + [m.record for m in mods]
            before = [asm_drv.snapshot(x) for x in inputs]
            proj = [asm_drv.rec_proj(x) for x in inputs]
        finally:
            _depth[0] -= 1
        err = None
        prod = None
        import warnings
        seen_warnings = []
        real_warn = warnings.warn

        def spy(message, *a, **k):          # observe the warnings without catching them: the caller's filters stay in charge
            seen_warnings.append(message)
            k["stacklevel"] = k.get("stacklevel", 1) + 1
            return real_warn(message, *a, **k)
        warnings.warn = spy
        try:
            prod = orig_assemble(self, module, *modules, **kwargs)
        except BaseException as ex:  # noqa
            err = ex
        finally:
            warnings.warn = real_warn

        class _W(object):
            def __init__(self, m):
                self.message = m
        ws = [_W(m) for m in seen_warnings]
        _depth[0] += 1
        try:
            from moclo import errors
            from . import enz as enzmod
            s, o, k = enzmod.geometry(type(self).cutter)
            out = {"kind": "error", "exc": "", "moclo": False, "attr_ovh": [], "dup_ids": [], "seq": [], "id": "", "name": "", "topo": "",
                   "comment": [], "circular": False, "feats": [], "refs": [], "unused": [], "nwarn": 0, "fired": "", "cv": False, "cm": [], "isa": []}
            if err is None:
                n = len(prod.seq)
                refs = prod.annotations.get("references", []) or []
                unused = [m.record.id for w in ws if isinstance(w.message, errors.UnusedModules) for m in w.message.remaining]
                joined = "\\n".join(str(c) for c in prod.annotations.get("comment", []))
                out.update(kind="product", seq=dna.enc(prod.seq), id=prod.id, name=prod.name, topo=str(prod.annotations.get("topology", "")),
                           circular=isinstance(prod, mrecord.CircularRecord), feats=[asm_drv.feat_proj(f, n, refs) for f in prod.features],
                           refs=[asm_drv.ref_key(r) for r in refs], unused=sorted(unused),
                           nwarn=sum(1 for w in ws if isinstance(w.message, errors.UnusedModules)),
                           cv=self.record.id in joined, cm=[m.record.id in joined for m in mods])
            else:
                out["exc"] = type(err).__name__
                out["moclo"] = isinstance(err, errors.MocloError)
                out["isa"] = [nm for nm in ("InvalidSequence", "DuplicateModules", "MissingModule") if isinstance(err, getattr(errors, nm))] or [type(err).__name__]
                if isinstance(err, errors.MissingModule) and err.start_overhang is not None:
                    out["attr_ovh"] = dna.enc(err.start_overhang)
            after = [asm_drv.snapshot(x) for x in inputs]
            _events["assembly"].append([{"ev": "Assemble", "enz": {"site": dna.enc(s), "off": o, "ovh": k}, "vrole": "vector",
                                         # the closed form of C01/C03 is stated for classes whose sites flank the target (not e.g. YTKPart234r)
                                         "generic": all(classes.describe(type(m))["flank"] for m in mods),
                                         "vec": proj[0], "mods": proj[1:], "args": {"id": kwargs.get("id", "assembly"), "name": kwargs.get("name", "assembly")},
                                         "out": out, "fault": {"at": 0, "exc": ""}, "before": before, "after": after,
                                         "rep": {"has": False, "out": {}, "after": []}, "twin": {"by": "none", "out": {}}}])
        except Exception:  # noqa
            pass
        finally:
            _depth[0] -= 1
        if err is not None:
            raise err
        return prod
    vectors.AbstractVector.assemble = assemble

    # ---- CircularRecord operations
    def wrap_rec(name, kind):
        orig = getattr(mrecord.CircularRecord, name)

        def f(self, *a, **kw):
            if _depth[0] or len(_events["record"]) > 3000 or len(self.seq) > 400:
                return orig(self, *a, **kw)
            _depth[0] += 1
            try:
                pre = project.project(self)
            finally:
                _depth[0] -= 1
            out = orig(self, *a, **kw)
            _depth[0] += 1
            try:
                if kind == "Rot":
                    _events["record"].append([{"ev": "Rot", "dir": "R" if name == "__rshift__" else "L", "k": int(a[0]), "pre": pre, "exc": "",
                                               "post": project.project(out)}])
                elif kind == "RevComp":
                    _events["record"].append([{"ev": "RevComp", "pre": pre, "exc": "", "post": project.project(out)}])
                elif kind == "Contains":
                    _events["record"].append([{"ev": "Contains", "pre": pre, "q": dna.enc(str(a[0])), "res": bool(out), "exc": ""}])
            except Exception:  # noqa
                pass
            finally:
                _depth[0] -= 1
            return out
        setattr(mrecord.CircularRecord, name, f)
    wrap_rec("__rshift__", "Rot")
    wrap_rec("__lshift__", "Rot")
    wrap_rec("reverse_complement", "RevComp")
    wrap_rec("__contains__", "Contains")


def pytest_sessionfinish(session, exitstatus):
    os.makedirs(OUT, exist_ok=True)
    for k, trs in _events.items():
        with open(os.path.join(OUT, k + ".json"), "w") as f:
            json.dump(trs, f)
