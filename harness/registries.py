"""Access to the embedded registries of the kits."""
import importlib

from . import loader

REGS = [("ytk", "YTKRegistry"), ("ytk", "PTKRegistry"), ("cidar", "CIDARRegistry"), ("ecoflex", "EcoFlexRegistry"),
        ("plant", "PlantRegistry")]
_cache = {}


def registry_classes():
    loader.load()
    out = []
    for mod, name in REGS:
        m = importlib.import_module("moclo.registry." + mod)
        if hasattr(m, name):
            out.append((mod, name, getattr(m, name)))
    return out


def plasmids():
    """[(registry name, id, sequence string, entity class)] for every embedded plasmid."""
    if "pl" in _cache:
        return _cache["pl"]
    out = []
    for mod, name, cls in registry_classes():
        reg = cls()
        for key in sorted(reg):
            item = reg[key]
            out.append((name, key, str(item.entity.record.seq), type(item.entity)))
    _cache["pl"] = out
    return out


_regs = {}


def registry(name):
    if name not in _regs:
        for mod, n, cls in registry_classes():
            if n == name:
                _regs[name] = cls()
    return _regs[name]


def item(reg, key):
    return registry(reg)[key]
