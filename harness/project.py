"""Abstraction functions: real records -> the abstract records of spec/CircularRecord.tla,
and builders of real records from abstract ones (for replaying TLC's transitions)."""
import json

from . import dna, loader


def runs(pairs, n):
    """canonical denotation of a location: set of (strand, position) -> maximal cyclic runs
    [{st, idx}] sorted; idx in 5'->3' reading order of the strand (ascending for + and unstranded)."""
    out = []
    for st in (1, -1, 0):
        pos = sorted({p for s, p in pairs if s == st})
        if not pos:
            continue
        if len(pos) == n:
            out.append({"st": st, "idx": list(range(n - 1, -1, -1)) if st == -1 else list(range(n))})
            continue
        ps = set(pos)
        starts = [p for p in pos if (p - 1) % n not in ps]
        for s0 in starts:
            run = [s0]
            while (run[-1] + 1) % n in ps:
                run.append((run[-1] + 1) % n)
            if st == 0:
                run = sorted(run)
            elif st == -1:
                run = run[::-1]
            out.append({"st": st, "idx": run})
    out.sort(key=lambda r: (r["st"], r["idx"]))
    return out


def loc_pairs(loc, n):
    pairs = []
    if loc is None:
        return pairs
    for p in loc.parts:
        st = p.strand if p.strand in (1, -1) else 0
        if int(p.start) == int(p.end) and n:
            # a site BETWEEN two bases (GenBank "34^35") covers no letter; it is pinned down by the two letters next to it
            # (the label of the feature says so: see between_marker)
            pairs.append((st, (int(p.start) - 1) % n))
            pairs.append((st, int(p.start) % n))
        # (a part longer than the circle covers every position; a broken implementation may produce absurd extents, the
        # projection stays linear in the length of the record)
        for i in range(int(p.start), min(int(p.end), int(p.start) + n)):
            pairs.append((st, i % n))
    return pairs


def between_marker(loc):
    """'|^' for a location with a zero-length part (so that it is never confused with a two-letter feature)"""
    if loc is None:
        return ""
    return "|^" if any(int(p.start) == int(p.end) for p in loc.parts) else ""


def feature_label(f):
    q = {k: [str(x) for x in (v if isinstance(v, (list, tuple)) else [v])] for k, v in sorted(f.qualifiers.items())}
    # the operator of a compound location (GenBank `order(...)` vs `join(...)`) says how the parts relate: it is part of
    # what the feature IS, not of where it lies, and is carried like type and qualifiers
    op = getattr(f.location, "operator", "join") if f.location is not None and len(f.location.parts) > 1 else "join"
    # ... and so is the fuzziness of its ends (GenBank `<3..>9`): counted, because the reverse complement turns `<` into `>`
    fz = 0 if f.location is None else sum(1 for p_ in f.location.parts for x in (p_.start, p_.end) if type(x).__name__ != "ExactPosition")
    return "%s|%s|%s%s%s" % (f.type, f.id, json.dumps(q, sort_keys=True), "" if op == "join" else "|op=" + str(op), "|fuzzy=%d" % fz if fz else "")


def meta_token(rec):
    ann = {k: (v if isinstance(v, (str, int, float)) else str(v)) for k, v in sorted(rec.annotations.items())}
    return json.dumps([rec.id, rec.name, rec.description, list(rec.dbxrefs), ann], sort_keys=True)


def ordered_parts(loc, n):
    """the parts of a location in the order the location lists them, each as the positions it covers
    (mod n) in 5'->3' reading order of its strand - the order of a join is part of what it denotes"""
    out = []
    if loc is None or not n:
        return out
    for p in loc.parts:
        st = p.strand if p.strand in (1, -1) else 0
        idx = [i % n for i in range(int(p.start), min(int(p.end), int(p.start) + n + 1))]      # (n + 1: "longer than the circle" stays visible)
        if int(p.start) == int(p.end):
            idx = [(int(p.start) - 1) % n, int(p.start) % n]
        if st == -1:
            idx = idx[::-1]
        out.append({"st": st, "idx": idx})
    return out


def project(rec):
    """real (Circular/Seq)Record -> abstract record (json)"""
    n = len(rec.seq)
    feats = []
    for f in rec.features:
        feats.append({"lab": feature_label(f) + between_marker(f.location), "parts": runs(loc_pairs(f.location, n), n) if n else [],
                      "oparts": ordered_parts(f.location, n)})
    track = list(rec.letter_annotations.get("q", [])) if rec.letter_annotations else []
    from moclo.record import CircularRecord
    return {"seq": dna.enc(rec.seq), "feats": feats, "track": [int(x) for x in track], "meta": meta_token(rec),
            "circular": isinstance(rec, CircularRecord)}


def build(abs_rec, representation="pastend", ftype=None):
    """abstract record (from a TLC state) -> real CircularRecord.
    representation of an origin-spanning run: 'pastend' = one location whose end exceeds the
    length (what rotation itself produces), 'split' = a compound location cut at the origin."""
    loader.load()
    from Bio.Seq import Seq
    from Bio.SeqFeature import CompoundLocation, FeatureLocation, SeqFeature
    from moclo.record import CircularRecord
    seq = dna.dec(abs_rec["seq"])
    n = len(seq)
    feats = []
    for f in abs_rec["feats"]:
        locs = []
        for p in f["parts"]:
            idx = p["idx"]
            st = p["st"] if p["st"] in (1, -1) else None
            asc = idx[::-1] if p["st"] == -1 else idx
            start, L = asc[0], len(asc)
            if len(idx) == n:
                locs.append(FeatureLocation(0, n, strand=st))
            elif start + L <= n:
                locs.append(FeatureLocation(start, start + L, strand=st))
            elif representation == "pastend":
                locs.append(FeatureLocation(start, start + L, strand=st))
            else:
                a, b = FeatureLocation(start, n, strand=st), FeatureLocation(0, start + L - n, strand=st)
                locs.extend([b, a] if st == -1 else [a, b])
        loc = locs[0] if len(locs) == 1 else CompoundLocation(locs)
        feats.append(SeqFeature(loc, type=f["lab"] if ftype is None else ftype, qualifiers={"note": ["x"]}))
    kw = {}
    if abs_rec.get("track"):
        kw["letter_annotations"] = {"q": list(abs_rec["track"])}
    return CircularRecord(Seq(seq), id="rec%s" % abs_rec.get("meta", ""), name="nm", description="d", features=feats,
                          annotations={"topology": "circular", "molecule_type": "DNA"}, dbxrefs=["db:1"], **kw)


def canon_feats(feats, n):
    """canonical comparison form of abstract features: (label class, runs) bag"""
    out = []
    for f in feats:
        pairs = [(p["st"], i) for p in f["parts"] for i in p["idx"]]
        out.append((f["lab"].split("|")[0], json.dumps(runs(pairs, n))))
    return sorted(out)
