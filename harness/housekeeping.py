"""Growth beyond the listed properties: resistance inference, cutter_check, characterize order.
Returns traces for spec/Trace_Housekeeping.tla; all clauses are conformance notes (X:)."""
from . import classes, gen, loader

LABELS = ["KanR", "KnR", "CamR", "CmR", "AmpR", "SmR", "SpecR", "ori", "GFP", "promoter", "kanr"]


def traces(rng, n):
    loader.load()
    from Bio.Seq import Seq
    from Bio.SeqFeature import FeatureLocation, SeqFeature
    from Bio.SeqRecord import SeqRecord
    from moclo import core
    from moclo.record import CircularRecord
    from moclo.registry._utils import find_resistance
    out = []
    for _ in range(n):
        feats = [[rng.choice(LABELS) for _ in range(rng.choice([0, 1, 1, 2, 3]))] for _ in range(rng.randint(0, 4))]
        rec = SeqRecord(Seq("ACGT" * 5), id="r", features=[SeqFeature(FeatureLocation(0, 4), type="misc", qualifiers={"label": list(ls)} if ls else {}) for ls in feats])
        ev = {"ev": "Resistance", "feats": feats, "res": "", "exc": ""}
        try:
            ev["res"] = find_resistance(rec)
        except BaseException as ex:  # noqa
            ev["exc"] = type(ex).__name__
        out.append([ev])
    # cutter_check
    from Bio.Restriction import BsaI, EcoRV
    from Bio.Restriction.Restriction import RestrictionType
    unknown = None
    import Bio.Restriction as BR
    for name in ("AbaSI", "AspBHI", "CjeI"):
        if hasattr(BR, name) and getattr(BR, name).is_unknown():
            unknown = getattr(BR, name)
            break
    kinds = [("ok", BsaI), ("blunt", EcoRV), ("undeclared", NotImplemented)] + ([("unknown", unknown)] if unknown else [])
    for kind, cutter in kinds:
        for base in (core.Entry, core.EntryVector):
            cls = type(str("K" + kind), (base,), {"cutter": cutter})
            ev = {"ev": "CutterCheck", "kind": kind, "exc": ""}
            try:
                cls(CircularRecord(Seq("ACGT"), id="x"))
            except BaseException as ex:  # noqa
                ev["exc"] = type(ex).__name__
            out.append([ev])
    # characterize: first accepting candidate in definition order
    from . import enz
    for _ in range(max(4, n // 10)):
        e = rng.choice(enz.distinct_geometries())
        G = gen.geometry_of(e)
        base = type(str("OrderBase"), (core.AbstractPart,), {"cutter": e})
        sigs = [("N" * G.ovh, "N" * G.ovh), (gen.rnd(G.ovh, rng), "N" * G.ovh), ("N" * G.ovh, gen.rnd(G.ovh, rng))]
        rng.shuffle(sigs)
        subs = [type(str("Order%d" % i), (base, core.Entry), {"signature": sg}) for i, sg in enumerate(sigs)]
        ov = G.overhangs(2, rng)
        s = G.module(ov[0], gen.rnd(5, rng), ov[1], gen.rnd(4, rng), rng)
        if not s:
            continue
        rec = CircularRecord(Seq(s), id="c")
        accepts = [c(rec).is_valid() for c in subs]
        ev = {"ev": "CharacterizeOrder", "accepts": accepts, "chosen": 0, "exc": ""}
        try:
            ent = base.characterize(rec)
            ev["chosen"] = subs.index(type(ent)) + 1
        except BaseException as ex:  # noqa
            ev["exc"] = type(ex).__name__
        out.append([ev])
        del subs
    # declared signatures of the kit classes vs the published standards (spec/KitStandards.tla)
    for spec, c in classes.kit_classes():
        if classes.signature_typed(c):
            out.append([{"ev": "KitSignature", "name": c.__name__, "up": c.signature[0], "down": c.signature[1]}])
    # CIDAR / EcoFlex: the declared part types chain into a transcription unit, composites span what they replace
    import importlib
    units = {"cidar": ["CIDARPromoter", "CIDARRibosomeBindingSite", "CIDARCodingSequence", "CIDARTerminator"],
             "ecoflex": ["EcoFlexPromoter", "EcoFlexRBS", "EcoFlexCodingSequence", "EcoFlexTerminator"]}
    comps = {"ecoflex": [("EcoFlexPromoterRBS", "EcoFlexPromoter", "EcoFlexRBS"), ("EcoFlexRBS", "EcoFlexTagLinker", "EcoFlexTag")]}
    sg = lambda c: [list(c.signature[0].upper()), list(c.signature[1].upper())]   # noqa: E731
    for kit, names in units.items():
        mod = importlib.import_module("moclo.kits." + kit)
        if all(hasattr(mod, nm) for nm in names):
            out.append([{"ev": "KitUnit", "kit": kit, "sigs": [sg(getattr(mod, nm)) for nm in names]}])
        for c, a, b in comps.get(kit, []):
            if all(hasattr(mod, nm) for nm in (c, a, b)):
                out.append([{"ev": "KitComposite", "kit": kit, "c": sg(getattr(mod, c)), "a": sg(getattr(mod, a)), "b": sg(getattr(mod, b))}])
    # the exception classes: documented ancestors, and every kind of instance the library raises can be printed
    from moclo import errors
    for name in sorted(dir(errors)):
        c = getattr(errors, name)
        if isinstance(c, type) and issubclass(c, BaseException) and c.__module__ == errors.__name__:
            out.append([{"ev": "ErrorClass", "name": name, "mro": [k.__name__ for k in c.__mro__][1:]}])
    from Bio.Seq import Seq
    from moclo.record import CircularRecord
    from moclo.kits import ytk
    rec = CircularRecord(Seq("GGTCTCACCCTACGTACAACGAGAGACCTTTT"), id="p1")
    ent = ytk.YTKPart1(rec)
    samples = [("InvalidSequence(record)", lambda: errors.InvalidSequence(rec)), ("InvalidSequence(seq, details)", lambda: errors.InvalidSequence(rec.seq, details="d")),
               ("InvalidSequence(entity)", lambda: errors.InvalidSequence(ent, details="vector is not suitable")), ("IllegalSite(seq)", lambda: errors.IllegalSite(rec.seq)),
               ("DuplicateModules", lambda: errors.DuplicateModules(ent, ent, details="same start overhang: 'CCCT'")), ("DuplicateModules()", lambda: errors.DuplicateModules()),
               ("MissingModule", lambda: errors.MissingModule(Seq("AACG"))), ("MissingModule(details)", lambda: errors.MissingModule("AACG", details="x")),
               ("UnusedModules", lambda: errors.UnusedModules(ent)), ("UnusedModules(details)", lambda: errors.UnusedModules(ent, ent, details=3))]
    for kind, mk in samples:
        ok = True
        try:
            ex = mk()
            ok = isinstance(str(ex), str) and isinstance(repr(ex), str)
        except BaseException:  # noqa
            ok = False
        out.append([{"ev": "ErrorPrint", "kind": kind, "ok": ok}])
    return out


def run_into(run, n=60):
    """validate the growth traces inside a check run (extra coverage, notes only)"""
    run.model_check("MC_Housekeeping", "MC_Housekeeping.cfg", coverage=True)
    tr = traces(run.rng, n)
    v = run.validate("housekeeping (growth, notes only)", "Trace_Housekeeping", tr)
    run.extra["growth_housekeeping_events"] = v.events
    run.extra["growth_housekeeping_disagreements"] = sum(len(c) for _, _, c in v.notes)
