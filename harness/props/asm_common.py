"""Recipe builders and shared runs for the assembly properties
(C01 C03 C07 C08 C09 C10 C19 and the assembly halves of C02 C12 C17 C18)."""
import itertools

from .. import classes, dna, enz, gen, loader
from ..asm_drv import exec_assembly
from . import typing_common as tc


def rnd_features(seq, rng, nmax=4, cites=0, marks=()):
    """random feature table over a circular sequence; parts never exceed the record end (wraps are compound)"""
    n = len(seq)
    feats = []
    for _ in range(rng.randint(0, nmax)):
        st = rng.choice([1, -1])
        parts = []
        for _ in range(1 if rng.random() < 0.7 else 2):
            if marks and rng.random() < 0.4:          # touching / abutting a fragment boundary
                a = (rng.choice(marks) + rng.choice([-2, -1, 0, 1])) % n
            else:
                a = rng.randrange(n)
            L = rng.randint(1, max(1, min(n - 1, 12)))
            if a + L <= n:
                parts.append([a, a + L])
            else:
                parts.append([a, n])
                parts.append([0, a + L - n])
        f = {"type": rng.choice(["CDS", "misc_feature", "promoter", "source"]), "strand": st, "parts": parts,
             "quals": {"label": ["f%d" % rng.randrange(1000)]}}
        if cites and rng.random() < 0.6:
            f["cites"] = rnd_cites(rng, cites)
        if rng.random() < 0.12:
            f["fuzzy"] = rng.choice(["within", "oneof", "open"])      # (a between-position as the START of a range does not survive Biopython's GenBank writer/reader)
        feats.append(f)
    return feats


def rnd_cites(rng, nref):
    """one to three citation indices in any order; now and then the same reference twice"""
    k = rng.randint(1, min(3, nref))
    c = rng.sample(range(1, nref + 1), k)
    if rng.random() < 0.5:
        c.sort()
    if rng.random() < 0.1:
        c.append(c[0])
    return c


def cited_inside(spec, frag_start, frag_len, rng, nref):
    """a feature lying inside the retained fragment that cites one or two references of its record"""
    n = len(spec["seq"])
    L = rng.randint(1, max(1, min(frag_len, 6)))
    a = (frag_start + rng.randint(0, frag_len - L)) % n
    parts = [[a, a + L]] if a + L <= n else [[a, n], [0, a + L - n]]
    return {"type": "CDS", "strand": rng.choice([1, -1]), "parts": parts, "quals": {"label": ["cited%d" % rng.randrange(1000)]},
            "cites": rnd_cites(rng, nref)}


def case_recipe(G, espec, rng, nmods, annotate=False, refs=False, rotate=True, shuffle=True, extra_unused=0, rc_close=False):
    c = G.case(rng, nmods, rc_close=rc_close)
    if c is None:
        return None
    specs = []
    # a paper cited by several inputs; as parsed from GenBank it carries a base range ("bases 1 to 20"), the same in each file
    shared = ["ref-shared-%d%s" % (rng.randrange(100), "||1-20|" if rng.random() < 0.5 else "")] if refs else []
    for name, s in [("vec", c["vector"])] + [("m%d" % (i + 1), m) for i, m in enumerate(c["modules"])]:
        k = rng.randrange(len(s)) if rotate else 0
        s2 = gen.rotate(s, k)
        spec = {"id": name, "seq": s2}
        if refs:
            nref = rng.randint(0, 3) if rng.random() < 0.9 else rng.randint(10, 13)      # (two-digit citation indices)
            # references are distinct within one record (a shared one may appear in several records)
            spec["refs"] = ["ref-%s-%d" % (name, i) for i in range(nref)]
            if nref and rng.random() < 0.6:
                spec["refs"][rng.randrange(nref)] = shared[0]
            if nref >= 2 and rng.random() < 0.5:
                # two entries for the same publication that differ in one field only (GenBank: same paper for two base
                # ranges, two "Direct Submission" entries of one lab with different dates)
                i, j = rng.sample(range(nref), 2)
                base = spec["refs"][i].split("|")[0]
                how = rng.random()
                if how < 0.3:
                    spec["refs"][i] = "%s||1-%d|" % (base, len(s2) // 2)
                    spec["refs"][j] = "%s||%d-%d|" % (base, len(s2) // 2, len(s2))
                elif how < 0.6:
                    spec["refs"][i] = "%s|Submitted (01-JAN-2020)||" % base
                    spec["refs"][j] = "%s|Submitted (02-FEB-2021)||" % base
                elif how < 0.72:
                    spec["refs"][j] = "%s|||second deposit" % base
                else:         # two submissions with one title by different people, no PubMed id
                    spec["refs"][i] = "Direct Submission|Submitted|||Lee M.E."
                    spec["refs"][j] = "Direct Submission|Submitted|||Kim S."
            if nref >= 2 and rng.random() < 0.25:
                i, j = sorted(rng.sample(range(nref), 2))
                spec["refs"][j] = spec["refs"][i]          # two entries that compare equal; features may cite the later one
            if nref == 0 and rng.random() < 0.5:
                spec.pop("refs")          # no reference list at all (equivalent to an empty one)
        if rng.random() < 0.3:
            # annotations of real files: none of them has any bearing on an assembly
            spec["ann"] = {"molecule_type": rng.choice(["DNA", "ds-DNA", "ss-DNA", "genomic DNA", "other DNA", "ms-DNA", "unassigned DNA", ""]),
                           "data_file_division": rng.choice(["SYN", "UNA", "PLN"]), "organism": rng.choice(["synthetic DNA construct", "."]),
                           "taxonomy": rng.choice([[], ["other sequences", "artificial sequences"]]),
                           "keywords": rng.choice([[""], ["kw1", "kw2"]]), "date": "01-JAN-1980"}
            if rng.random() < 0.3:
                spec["ann"].pop("molecule_type")
                spec["ann"]["topology"] = rng.choice(["circular", "Circular", "CIRCULAR"])
        if rng.random() < 0.12:
            spec["letter"] = True          # a per-letter annotation track on this input (some inputs have one, some do not)
        if annotate:
            # fragment boundaries in the rotated coordinates, to place features on them
            spec["feats"] = rnd_features(s2, rng, cites=len(spec.get("refs", [])) if refs else 0,
                                         marks=[(i + k) % len(s) for i in (0, len(s) // 2, len(G.site) + G.off)])
            # where the retained fragment lies in the rotated record
            idx = len(specs)
            if idx == 0:
                fs, fl = (2 * G.ovh + 2 * G.off + 2 * len(G.site) + len(c["placeholder"]) - G.ovh) , G.ovh + len(c["backbone"])
            else:
                fs, fl = len(G.site) + G.off, G.ovh + len(c["targets"][idx - 1])
            if refs and spec.get("refs"):
                # at least one cited feature inside the retained fragment of every input that has references
                spec["feats"].append(cited_inside(spec, (fs + k) % len(s), fl, rng, len(spec["refs"])))
            if fl >= 5 and rng.random() < 0.25:
                # a join inside the retained fragment whose two parts lie on different strands
                a1 = (fs + k + rng.randint(0, 1)) % len(s)
                a2 = (fs + k + rng.randint(3, fl - 2)) % len(s)
                if a1 + 2 <= len(s) and a2 + 1 <= len(s):
                    spec["feats"].append({"type": "misc_feature", "strand": 1, "parts": [[a1, a1 + 2, rng.choice([1, -1])], [a2, a2 + 1, rng.choice([1, -1, None])]],
                                          "quals": {"label": ["mixed%d" % rng.randrange(1000)]}})
            if rng.random() < 0.2:
                # a hand-made, strandless `source` annotation of exactly the stretch that is retained (a chimeric construct
                # described segment by segment)
                a = (fs + k) % len(s)
                if a + fl <= len(s):
                    spec["feats"].append({"type": "source", "strand": None, "parts": [[a, a + fl]],
                                          "quals": {"label": ["segment"], "organism": ["Escherichia coli"]}})
            if fl >= 2 and rng.random() < 0.3:
                # a site between two bases ("34^35", e.g. a cleavage site): strictly inside the retained fragment
                a = (fs + k + rng.randint(1, fl - 1)) % len(s)
                spec["feats"].append({"type": "misc_feature", "strand": rng.choice([1, -1]), "parts": [[a, a]],
                                      "quals": {"label": ["site%d" % rng.randrange(1000)]}})
            if len(s) - fl >= 3 and rng.random() < 0.15:
                # ... and one strictly inside the discarded part
                a = (fs + k + fl + rng.randint(1, len(s) - fl - 1)) % len(s)
                spec["feats"].append({"type": "misc_feature", "strand": 1, "parts": [[a, a]], "quals": {"label": ["gone%d" % rng.randrange(1000)]}})
        specs.append(spec)
    mods = specs[1:]
    for j in range(extra_unused):
        ov = G.overhangs(2, rng)
        u = G.module(ov[0], gen.rnd(4, rng), ov[1], gen.rnd(3, rng), rng)
        if u and ov[0] not in c["overhangs"] and dna.rc(ov[0]) not in c["overhangs"]:
            uspec = {"id": "u%d" % j, "seq": u}
            if refs:          # an unused module carrying citations of its own
                uspec["refs"] = ["ref-u%d-0" % j, "ref-u%d-1" % j]
                uspec["feats"] = [cited_inside(uspec, len(G.site) + G.off, G.ovh + 4, rng, 2)]
            mods.append(uspec)
    if len(mods) >= 2 and rng.random() < 0.12:
        # plasmid ids are not unique in real life: anonymous records, products that kept the default id
        dup = rng.choice(["<unknown id>", "assembly", "pX"])
        for m in (mods if rng.random() < 0.5 else rng.sample(mods, 2)):
            m["id"] = dup
    if shuffle:
        rng.shuffle(mods)
    return {"fn": "assemble", "enz": espec, "vector": specs[0], "modules": mods, "id": "prod", "name": "prod",
            "expected": c["expected"]}


def many_refs(r, rng):
    """make one input of a cited recipe a well-curated file: twelve references, the cited feature inside its fragment cites a late one"""
    xs = [x for x in [r["vector"]] + r["modules"] if x.get("refs") and any(f.get("cites") for f in x.get("feats", []))]
    if not xs:
        return None
    x = rng.choice(xs)
    x["refs"] = list(x["refs"]) + ["curated-%s-%d" % (x["id"], i) for i in range(12 - len(x["refs"]))]
    f = [f for f in x["feats"] if f.get("cites") and f["quals"]["label"][0].startswith("cited")]
    (f or [f2 for f2 in x["feats"] if f2.get("cites")])[-1]["cites"] = [rng.randint(10, 12)]
    return r


def curated_many_refs(rng, count):
    """`count` successful assemblies in which one input carries a long reference list (two-digit citation indices)"""
    out = []
    for r in real_family_cases(rng, 1, 3, annotate=True, refs=True):
        if len(out) >= count:
            break
        if many_refs(r, rng):
            out.append(r)
    return out


def real_family_cases(rng, per_geom, maxmods, **kw):
    out = []
    for espec, G in tc.geometries():
        for _ in range(per_geom):
            n = rng.randint(1, min(maxmods, max(1, G.capacity() - 1)))
            r = case_recipe(G, espec, rng, n, **kw)
            if r:
                out.append(r)
    return out


def asm_sig(clause, ev, trace):
    if ev["ev"] != "Assemble":
        return clause
    out = ev["out"]
    extra = ""
    if clause.startswith("C07") or clause.startswith("C10"):
        extra = "|cited" if any(f["cites"] for x in [ev["vec"]] + ev["mods"] for f in x["feats"]) else "|uncited"
        extra += "|%s" % ("fault" if ev["fault"]["at"] else out["kind"])
    if clause.startswith("C18") or clause.startswith("C02") or clause.startswith("C12") or clause.startswith("C19"):
        extra = "|%s->%s" % (out["exc"] or out["kind"], ev["twin"]["out"].get("exc") or ev["twin"]["out"].get("kind"))
    if clause.startswith("C17"):
        extra = "|%s" % out["exc"]
    return "%s%s" % (clause, extra)


def asm_describe(clause, ev, trace):
    if ev["ev"] != "Assemble":
        return "%s: %s" % (clause, {k: v for k, v in ev.items() if k not in ("before", "after")})
    out = ev["out"]
    o = {"kind": out["kind"], "exc": out["exc"], "seq": dna.dec(out["seq"]), "unused": out["unused"], "start_overhang": dna.dec(out["attr_ovh"]),
         "refs": out["refs"], "features": [(f["lab"][:40], f["parts"][:2], f["raw"]) for f in out["feats"]][:8]}
    s = "%s: enzyme %s/%d/%d vector %s=%s modules %s -> %s" % (
        clause, dna.dec(ev["enz"]["site"]), ev["enz"]["off"], ev["enz"]["ovh"], ev["vec"]["id"], dna.dec(ev["vec"]["seq"]),
        [(m["id"], dna.dec(m["seq"])) for m in ev["mods"]], o)
    if ev["fault"]["at"]:
        s += "; injected %s at call %d (%s)" % (ev["fault"]["exc"], ev["fault"]["at"], out["fired"])
    if ev["twin"]["by"] != "none":
        t = ev["twin"]["out"]
        s += "; twin by %s -> %s %s %s" % (ev["twin"]["by"], t.get("kind"), t.get("exc"), dna.dec(t.get("seq", [])))
    if clause.startswith("C07"):
        diffs = [i for i, (a, b) in enumerate(zip(ev["before"], ev["after"])) if a != b]
        s += "; inputs changed: %s" % [([ev["vec"]] + ev["mods"])[i]["id"] for i in diffs]
        if diffs:
            s += " e.g. before=%s after=%s" % (ev["before"][diffs[0]][:300], ev["after"][diffs[0]][:300])
    return s


def validate(run, label, recipes):
    traces = [exec_assembly(r) for r in recipes]
    for r, t in zip(recipes, traces):
        ev = t[0]
        run.distinct.add((dna.dec(ev["vec"]["seq"]), tuple(dna.dec(m["seq"]) for m in ev["mods"]), ev["fault"]["at"], ev["twin"]["by"]))
    if traces:
        run.add_sample({"recipe": {k: v for k, v in recipes[0].items()}, "outcome": {k: v for k, v in traces[0][0]["out"].items() if k != "feats"}})
    v = run.validate(label, "Trace_Assembly", traces, recipes, sigfn=asm_sig, describe=asm_describe)
    kinds = {}
    for t in traces:
        o = t[0]["out"]
        kinds[o["exc"] or o["kind"]] = kinds.get(o["exc"] or o["kind"], 0) + 1
    run.extra.setdefault("outcomes", {})[label] = kinds
    return traces


def twin_args(r, by, rng):
    n = 1 + len(r["modules"])
    if by == "rot":
        return [rng.randrange(1, len(x["seq"])) for x in [r["vector"]] + r["modules"]]
    if by == "rc":
        return (["api"] * n) if rng.random() < 0.4 else ([None] * n)
    masks = ["1", "0", "01", "".join(rng.choice("01") for _ in range(17)), "0010"]
    return [rng.choice(masks) for _ in range(n)]


def twin_assemblies(run, by):
    """assembly halves of C02 (rot), C12 (rc), C18 (case): the same assembly on transformed inputs"""
    rng, q = run.rng, run.quick
    recipes = []
    for r in real_family_cases(rng, 2 if q else 10, 4, extra_unused=0):
        r["twin"] = {"by": by, "args": twin_args(r, by, rng)}
        recipes.append(r)
    if by == "rot":       # annotated plasmids (simple, joined, between-base and inexact positions) stored at another origin
        for r in real_family_cases(rng, 2 if q else 8, 3, annotate=True):
            r["twin"] = {"by": by, "args": twin_args(r, by, rng)}
            recipes.append(r)
    # failing assemblies must fail alike (missing module, duplicates)
    for r in real_family_cases(rng, 1 if q else 4, 3):
        if by == "rc":
            continue
        if len(r["modules"]) >= 2 and rng.random() < 0.5:
            r["modules"].pop(rng.randrange(len(r["modules"])))
        else:
            r["modules"].append(dict(r["modules"][0], id="dup"))
        r["twin"] = {"by": by, "args": twin_args(r, by, rng)}
        recipes.append(r)
    if by == "case":      # two modules with reverse-complementary start overhangs are refused in every spelling
        for espec, G in tc.geometries():
            if rng.random() < (0.6 if q else 0.0):
                continue
            c = G.case(rng, 2 if G.capacity() >= 3 else 1)
            if not c:
                continue
            ov2 = G.overhangs(1, rng)
            extra = G.module(dna.rc(c["overhangs"][0]), gen.rnd(4, rng, G.safe), ov2[0], gen.rnd(3, rng, G.safe), rng)
            if extra and dna.rc(c["overhangs"][0]) != c["overhangs"][0]:
                mods = [{"id": "m%d" % (i + 1), "seq": m} for i, m in enumerate(c["modules"])] + [{"id": "rcstart", "seq": extra}]
                recipes.append({"fn": "assemble", "enz": espec, "vector": {"id": "vec", "seq": c["vector"]}, "modules": mods, "id": "p", "name": "p",
                                "twin": {"by": "case", "args": [rng.choice(["1", "01", "0"])] + ["1"] * len(mods)}})
    if by == "case":
        # which modules an error names, and the order in which a warning lists the left-out ones, do not depend on spelling:
        # two independent duplicate pairs, one conflicting pair spelled in two cases, several spare modules
        for espec, G in tc.geometries():
            if G.capacity() < 6 or rng.random() < (0.6 if q else 0.0):
                continue
            c = G.case(rng, 2)
            ov = G.overhangs(4, rng)
            if not c or not ov or set(ov) & set(c["overhangs"]) or any(dna.rc(o) in c["overhangs"] for o in ov):
                continue
            mods = [{"id": "m%d" % (i + 1), "seq": m} for i, m in enumerate(c["modules"])]
            dupA = G.module(c["overhangs"][0], gen.rnd(5, rng, G.safe), ov[0], gen.rnd(3, rng, G.safe), rng)
            dupB = G.module(c["overhangs"][1], gen.rnd(4, rng, G.safe), ov[1], gen.rnd(2, rng, G.safe), rng)
            sp1 = G.module(ov[2], gen.rnd(4, rng, G.safe), ov[3], gen.rnd(2, rng, G.safe), rng)
            sp2 = G.module(ov[3], gen.rnd(3, rng, G.safe), ov[2], gen.rnd(2, rng, G.safe), rng)
            masks = lambda n: [rng.choice(["1", "0", "01", "0011", "10"]) for _ in range(n)]     # noqa: E731
            if dupA and dupB:
                ms = mods + [{"id": "dupA", "seq": dupA}, {"id": "dupB", "seq": dupB}]
                rng.shuffle(ms)
                recipes.append({"fn": "assemble", "enz": espec, "vector": {"id": "vec", "seq": c["vector"]}, "modules": ms, "id": "p", "name": "p",
                                "twin": {"by": "case", "args": ["0"] + masks(len(ms))}})
            if sp1 and sp2:
                ms = mods + [{"id": "spare1", "seq": sp1}, {"id": "spare2", "seq": sp2}]
                rng.shuffle(ms)
                recipes.append({"fn": "assemble", "enz": espec, "vector": {"id": "vec", "seq": c["vector"]}, "modules": ms, "id": "p", "name": "p",
                                "twin": {"by": "case", "args": ["0"] + masks(len(ms))}})
        # a palindromic start overhang spelled in mixed case, letter by letter (gTAC reads GTAc on the other strand)
        for espec, G in tc.geometries():
            if G.ovh % 2 or G.ovh < 2 or rng.random() < (0.5 if q else 0.0):
                continue
            half = gen.rnd(G.ovh // 2, rng)
            pal = half + dna.rc(half)
            ov = G.overhangs(2, rng)
            if not ov or pal in ov:
                continue
            v = G.vector(ov[0], ov[1], gen.rnd(3, rng, G.safe), gen.rnd(5, rng, G.safe), rng)
            m1 = G.module(ov[0], gen.rnd(4, rng, G.safe), pal, gen.rnd(3, rng, G.safe), rng)
            m2 = G.module(pal, gen.rnd(5, rng, G.safe), ov[1], gen.rnd(2, rng, G.safe), rng)
            if v and m1 and m2:
                n2 = len(m2)
                recipes.append({"fn": "assemble", "enz": espec, "vector": {"id": "vec", "seq": v}, "modules": [{"id": "m1", "seq": m1}, {"id": "m2", "seq": m2}],
                                "id": "p", "name": "p", "twin": {"by": "case", "args": ["0", "0", "".join(rng.choice("01") for _ in range(n2))]}})
    if by == "rc":
        # a spare module that starts at the vector's upstream overhang (where the chain ends): only a warning, on either strand
        for espec, G in tc.geometries():
            if G.capacity() < 5 or rng.random() < (0.5 if q else 0.0):
                continue
            c = G.case(rng, rng.randint(1, 2))
            ov = G.overhangs(1, rng)
            if not c or not ov or ov[0] in c["overhangs"] or dna.rc(ov[0]) in c["overhangs"]:
                continue
            spare = G.module(c["overhangs"][-1], gen.rnd(4, rng, G.safe), ov[0], gen.rnd(3, rng, G.safe), rng)
            if spare:
                r = {"fn": "assemble", "enz": espec, "vector": {"id": "vec", "seq": c["vector"]},
                     "modules": [{"id": "m%d" % (i + 1), "seq": m} for i, m in enumerate(c["modules"])] + [{"id": "spare", "seq": spare}], "id": "p", "name": "p"}
                r["twin"] = {"by": "rc", "args": twin_args(r, "rc", rng)}
                recipes.append(r)
    if by == "case":      # a vector whose two overhangs coincide must be refused in every spelling
        for espec, G in tc.geometries():
            if rng.random() < (0.7 if q else 0.0):
                continue
            ov = G.overhangs(2, rng)
            v = G.vector(ov[0], ov[0], gen.rnd(3, rng, G.safe), gen.rnd(5, rng, G.safe), rng)
            m = G.module(ov[0], gen.rnd(4, rng, G.safe), ov[1], gen.rnd(3, rng, G.safe), rng)
            if v and m:
                n = 1 + 1
                recipes.append({"fn": "assemble", "enz": espec, "vector": {"id": "vec", "seq": v}, "modules": [{"id": "m1", "seq": m}],
                                "id": "p", "name": "p", "twin": {"by": "case", "args": ["".join(rng.choice("01") for _ in range(23)), "0"]}})
    validate(run, "assemblies-%s" % by, recipes)


def fuzz_assemblies(run):
    """C17: assemblies mixing valid and invalid records end with a product or a MoClo error"""
    rng, q = run.rng, run.quick
    recipes = []
    for r in real_family_cases(rng, 2 if q else 10, 3):
        mode = rng.random()
        tgt = rng.choice(["vector", "module"])
        def wreck(s):
            x = rng.random()
            if x < 0.3:
                return gen.rnd(rng.randint(1, 30), rng, "ACGTRYN")
            if x < 0.6:
                return gen.mutate(gen.mutate(s, rng), rng)
            if x < 0.8:
                return s[: rng.randrange(1, len(s))]
            return "".join(c.lower() if rng.random() < 0.5 else c for c in gen.mutate(s, rng))
        if tgt == "vector":
            r["vector"] = dict(r["vector"], seq=wreck(r["vector"]["seq"]))
        else:
            i = rng.randrange(len(r["modules"]))
            r["modules"][i] = dict(r["modules"][i], seq=wreck(r["modules"][i]["seq"]))
        if mode < 0.3:
            r["modules"].append(dict(r["modules"][0], id="again"))
        recipes.append(r)
    # chains that lead back to an overhang already consumed (a loop, a rho): the walk must end, with MissingModule
    for espec, G in tc.geometries():
        if G.capacity() < 5 or rng.random() < (0.6 if q else 0.0):
            continue
        ov = G.overhangs(4, rng)
        if not ov:
            continue
        A, B, C, Z = ov
        v = G.vector(A, Z, gen.rnd(3, rng, G.safe), gen.rnd(5, rng, G.safe), rng)
        mk = lambda a, b: G.module(a, gen.rnd(rng.randint(2, 5), rng, G.safe), b, gen.rnd(2, rng, G.safe), rng)   # noqa: E731
        for shape in ([(A, B), (B, A)], [(A, B), (B, C), (C, B)], [(A, A)]):
            ms = [mk(a, b) for a, b in shape]
            if v and all(ms):
                recipes.append({"fn": "assemble", "enz": espec, "vector": {"id": "vec", "seq": v},
                                "modules": [{"id": "m%d" % (i + 1), "seq": m} for i, m in enumerate(ms)], "id": "p", "name": "p"})
    # the first module that is refused is refused for a site too many (its structure is fine)
    for r in real_family_cases(rng, 1 if q else 4, 3):
        i = rng.randrange(len(r["modules"]))
        site = r["enz"].get("name") and str(classes.cutter_of(r["enz"]).site)
        if site:
            r["modules"][i] = dict(r["modules"][i], seq=tc.with_extra_site(r["modules"][i]["seq"], site, rng))
            recipes.append(r)
    # lower-case spellings around the duplicate scan: a palindromic start overhang, a reverse-complementary pair of starts
    for espec, G in tc.geometries():
        if G.ovh % 2 or rng.random() < (0.5 if q else 0.0):
            continue
        half = gen.rnd(G.ovh // 2, rng)
        pal = half + dna.rc(half)
        ov = G.overhangs(2, rng)
        if pal in ov or dna.rc(ov[0]) == ov[1]:
            continue
        v = G.vector(pal, ov[1], gen.rnd(3, rng, G.safe), gen.rnd(5, rng, G.safe), rng)
        m1 = G.module(pal, gen.rnd(4, rng, G.safe), ov[0], gen.rnd(3, rng, G.safe), rng)
        m2 = G.module(ov[0], gen.rnd(5, rng, G.safe), ov[1], gen.rnd(2, rng, G.safe), rng)
        m3 = G.module(dna.rc(ov[0]), gen.rnd(4, rng, G.safe), ov[1], gen.rnd(2, rng, G.safe), rng)
        if v and m1 and m2:
            mods = [{"id": "m1", "seq": m1.lower()}, {"id": "m2", "seq": m2.lower() if rng.random() < 0.5 else m2}]
            recipes.append({"fn": "assemble", "enz": espec, "vector": {"id": "vec", "seq": v}, "modules": mods, "id": "p", "name": "p"})
            if m3:
                recipes.append({"fn": "assemble", "enz": espec, "vector": {"id": "vec", "seq": v},
                                "modules": [mods[1], {"id": "m3", "seq": m3.lower()}, mods[0]], "id": "p", "name": "p"})
    # citations on inputs must not turn into internal errors either
    for r in real_family_cases(rng, 1 if q else 4, 2, annotate=True, refs=True):
        recipes.append(r)
    # the very same module wrapper supplied twice, with and without citations
    for r in real_family_cases(rng, 1 if q else 3, 2, annotate=True, refs=True, shuffle=False) + real_family_cases(rng, 1 if q else 2, 2, shuffle=False):
        if rng.random() < (0.6 if q else 0.0):
            continue
        r["dup_wrapper"] = rng.randrange(len(r["modules"]))
        recipes.append(r)
    validate(run, "assemblies-fuzz", recipes)
