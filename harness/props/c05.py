"""C05 — a part type accepts exactly the records with its signature overhangs."""
from .. import classes, gen, loader
from ..core import Run
from ..typing_drv import exec_characterize, exec_typing
from . import typing_common as tc

EXEC = {"typing": exec_typing, "characterize": exec_characterize}
PART_BASES = [("ytk", "YTKPart"), ("cidar", "CIDARPart"), ("ecoflex", "EcoFlexPart"), ("moclo", "MoCloPart"), ("plant", "Plant Part")]


def part_bases():
    import importlib
    from moclo.core import AbstractPart
    out = []
    for kit in loader.KITS:
        mod = importlib.import_module("moclo.kits." + kit)
        for name in sorted(dir(mod)):
            c = getattr(mod, name)
            if isinstance(c, type) and issubclass(c, AbstractPart) and c.__module__ == mod.__name__ and c.signature is NotImplemented \
                    and c.__subclasses__():
                out.append((kit, name))
    return out


def near_miss(G, role, sig, rng):
    """a member of the generic class whose one overhang letter violates the signature"""
    su, sd = sig
    up, down = tc.sig_instance(su, rng), tc.sig_instance(sd, rng)
    which = rng.choice(["up", "down"])
    s0 = su if which == "up" else sd
    s0 = s0.upper()
    idx = [i for i, c in enumerate(s0) if c != "N"]
    if not idx:
        return None
    i = rng.choice(idx)
    bad = [x for x in "ACGT" if x not in gen.IUPAC[s0[i]]]
    tgt = up if which == "up" else down
    tgt = tgt[:i] + rng.choice(bad) + tgt[i + 1:]
    up, down = (tgt, down) if which == "up" else (up, tgt)
    if role == "module":
        return G.module(up, gen.rnd(rng.randint(2, 8), rng), down, gen.rnd(rng.randint(0, 8), rng), rng)
    return G.vector(down, up, gen.rnd(rng.randint(0, 6), rng), gen.rnd(rng.randint(2, 8), rng), rng)


def run(tier, seed):
    run = Run("C05", tier, seed)
    rng, q = run.rng, run.quick
    loader.load()
    tc.mc_structure(run, "C05", geoms_quick=(2, 3), geoms_thorough=(1, 2, 3, 5), thorough_scale=1)
    recipes = []
    # (1) the signature-typed classes of the kits
    kcs = [(sp, c) for sp, c in classes.kit_classes() if classes.signature_typed(c)]
    run.extra["signature_typed_kit_classes"] = len(kcs)
    for spec, cls in kcs:
        G = gen.geometry_of(cls.cutter)
        role = classes.role_of(cls)
        csig = cls.signature
        sibs = [c for sp, c in kcs if sp["kit"] == spec["kit"] and c is not cls and classes.role_of(c) == role and c.cutter is cls.cutter]
        seqs = []
        for _ in range(2 if q else 8):
            up, down = tc.sig_instance(csig[0], rng), tc.sig_instance(csig[1], rng)
            seqs.append(G.module(up, gen.rnd(rng.randint(2, 9), rng), down, gen.rnd(rng.randint(0, 9), rng), rng) if role == "module"
                        else G.vector(down, up, gen.rnd(rng.randint(0, 7), rng), gen.rnd(rng.randint(2, 9), rng), rng))
        if role == "vector":      # a vector plasmid that is nothing but its structure (no backbone at all / a single letter of it)
            for blen in (0, 1):
                up, down = tc.sig_instance(csig[0], rng), tc.sig_instance(csig[1], rng)
                seqs.append(G.vector(down, up, gen.rnd(rng.randint(0, 5), rng), gen.rnd(blen, rng), rng))
        for sib in rng.sample(sibs, min(len(sibs), 2 if q else 6)):
            u2, d2 = tc.sig_instance(sib.signature[0], rng), tc.sig_instance(sib.signature[1], rng)
            seqs.append(G.module(u2, gen.rnd(4, rng), d2, gen.rnd(5, rng), rng) if role == "module"
                        else G.vector(d2, u2, gen.rnd(3, rng), gen.rnd(5, rng), rng))
        for _ in range(2 if q else 6):
            seqs.append(near_miss(G, role, csig, rng))
            ov = G.overhangs(2, rng)
            seqs.append(G.module(ov[0], gen.rnd(5, rng), ov[1], gen.rnd(4, rng), rng) if role == "module"
                        else G.vector(ov[0], ov[1], gen.rnd(3, rng), gen.rnd(4, rng), rng))
        for s in seqs:
            if s:
                recipes.append({"fn": "typing", "cls": spec, "seq": gen.rotate(s, rng.randrange(len(s))), "gen": True})
    # (2) user-defined signatures (incl. degenerate ones) over every geometry
    for cspec, s, marks in tc.part_members(rng, 2 if q else 8):
        G = gen.Geometry(*(cspec["enz"]["syn"] if "syn" in cspec["enz"] else __import__("harness.enz", fromlist=["x"]).geometry(classes.cutter_of(cspec["enz"]))))
        recipes.append({"fn": "typing", "cls": cspec, "seq": gen.rotate(s, rng.randrange(len(s))), "gen": True})
        nm = near_miss(G, cspec["part"], cspec["sig"], rng)
        if nm:
            recipes.append({"fn": "typing", "cls": cspec, "seq": gen.rotate(nm, rng.randrange(len(nm))), "gen": True})
        recipes.append({"fn": "typing", "cls": cspec, "seq": gen.mutate(s, rng), "gen": True})
        if cspec["part"] == "vector":
            up, down = tc.sig_instance(cspec["sig"][0], rng), tc.sig_instance(cspec["sig"][1], rng)
            for blen in (0, 1):
                bare = G.vector(down, up, gen.rnd(rng.randint(0, 4), rng), gen.rnd(blen, rng), rng)
                if bare:
                    recipes.append({"fn": "typing", "cls": cspec, "seq": gen.rotate(bare, rng.randrange(len(bare))), "gen": True})
    # (3) characterize on every abstract part base of the kits, and on user hierarchies
    bases = part_bases()
    run.extra["part_bases"] = ["%s.%s" % b for b in bases]
    import importlib
    for kit, name in bases:
        base = getattr(importlib.import_module("moclo.kits." + kit), name)
        subs = [c for c in base.__subclasses__() if classes.signature_typed(c)]
        for _ in range(6 if q else 40):
            c = rng.choice(subs)
            G = gen.geometry_of(c.cutter)
            role = classes.role_of(c)
            kind = rng.random()
            if kind < 0.6:
                up, down = tc.sig_instance(c.signature[0], rng), tc.sig_instance(c.signature[1], rng)
            else:
                ov = G.overhangs(2, rng)
                up, down = ov[0], ov[1]
            s = G.module(up, gen.rnd(rng.randint(2, 8), rng), down, gen.rnd(rng.randint(0, 8), rng), rng) if role == "module" \
                else G.vector(down, up, gen.rnd(rng.randint(0, 6), rng), gen.rnd(rng.randint(2, 8), rng), rng)
            if s and rng.random() < 0.25:       # a member with a third site of the enzyme: no candidate accepts it
                s = tc.with_extra_site(s, G.site, rng)
            if s:
                recipes.append({"fn": "characterize", "base": {"kit": kit, "name": name}, "seq": gen.rotate(s, rng.randrange(len(s)))})
    # a user hierarchy that specialises a CONCRETE kit type (a degenerate signature narrowed down): the type itself is a candidate
    for spec, cls in kcs:
        if not any(ch in "NRYSWKMBDHV" for ch in "".join(cls.signature).upper()) or rng.random() < (0.5 if q else 0.0):
            continue
        G = gen.geometry_of(cls.cutter)
        narrow = [tc.sig_instance(cls.signature[0], rng), tc.sig_instance(cls.signature[1], rng)]
        for inst in ([narrow] + [[tc.sig_instance(cls.signature[0], rng), tc.sig_instance(cls.signature[1], rng)] for _ in range(2)]):
            s = G.module(inst[0], gen.rnd(4, rng), inst[1], gen.rnd(4, rng), rng) if classes.role_of(cls) == "module" \
                else G.vector(inst[1], inst[0], gen.rnd(3, rng), gen.rnd(4, rng), rng)
            if s:
                recipes.append({"fn": "characterize", "base": dict(spec, subsigs=[narrow]), "seq": gen.rotate(s, rng.randrange(len(s)))})
    for espec, G in tc.geometries():
        for role in ("module", "vector"):
            sigs = [[tc.rnd_signature(G.ovh, rng), tc.rnd_signature(G.ovh, rng)] for _ in range(3)]
            for _ in range(2 if q else 6):
                sg = rng.choice(sigs) if rng.random() < 0.7 else [gen.rnd(G.ovh, rng), gen.rnd(G.ovh, rng)]
                up, down = tc.sig_instance(sg[0], rng), tc.sig_instance(sg[1], rng)
                s = G.module(up, gen.rnd(4, rng), down, gen.rnd(4, rng), rng) if role == "module" else G.vector(down, up, gen.rnd(3, rng), gen.rnd(4, rng), rng)
                if s and rng.random() < 0.25:
                    s = tc.with_extra_site(s, G.site, rng)
                if s:
                    recipes.append({"fn": "characterize", "base": {"user": {"enz": espec, "role": role, "sigs": sigs}},
                                    "seq": gen.rotate(s, rng.randrange(len(s)))})
    traces = [EXEC[r["fn"]](r) for r in recipes]
    acc = rej = 0
    for r, t in zip(recipes, traces):
        ev = t[0]
        if ev["ev"] == "Typing":
            run.distinct.add((ev["cls"]["name"], r["seq"]))
            if ev["res"]["valid"]:
                acc += 1
            elif ev["gen"]["res"].get("valid"):
                rej += 1
    run.extra.update({"part_accepts": acc, "part_rejects_generic_member": rej,
                      "characterize_calls": sum(1 for r in recipes if r["fn"] == "characterize"),
                      "characterize_failures": sum(1 for t in traces if t[0]["ev"] == "Characterize" and t[0]["res"]["exc"])})
    run.add_sample({"recipe": recipes[0], "event": traces[0][0]})
    run.validate("parts", "Trace_Typing", traces, recipes, sigfn=sig, describe=describe)
    return run.finish("TLC: PartIffGenericAndSignature on the small worlds; I->S: the signature-typed kit classes and user-defined "
                      "signatures (incl. all-N) over all geometries on members, sibling members, random-overhang members, one-letter "
                      "near misses, each with the signature-free class's answers; characterize on every kit part base and on user "
                      "hierarchies; distinct = distinct (part class, record)")


def sig(clause, ev, trace):
    if ev["ev"] == "Characterize":
        return "%s|%s" % (clause, "kit" if not ev["base"].startswith("UserPart") else "user")
    return tc.typing_sig(clause, ev, trace)


def describe(clause, ev, trace):
    if ev["ev"] == "Characterize":
        from .. import dna
        return "%s: %s.characterize(%s) -> %s among candidates %s" % (clause, ev["base"], dna.dec(ev["seq"]), ev["res"],
                                                                    [c["name"] for c in ev["cands"]])
    return tc.typing_describe(clause, ev, trace)


def replay_case(rec):
    from ..core import generic_replay
    return generic_replay(rec, lambda r: EXEC[r["fn"]](r))
