"""C18 — letter case of the input sequences never changes the outcome."""
from .. import gen, loader
from ..dna import rc as dna_rc
from ..core import Run
from ..typing_drv import exec_typing
from . import typing_common as tc


def masks(n, rng):
    return ["1", "0", "".join(rng.choice("01") for _ in range(n)), "01", "".join(rng.choice("0001") for _ in range(n))]


def run(tier, seed):
    run = Run("C18", tier, seed)
    rng, q = run.rng, run.quick
    loader.load()
    tc.mc_structure(run, "C18", geoms_quick=(1, 2), geoms_thorough=(1, 2, 3, 4), thorough_scale=1)
    if not q:
        run.model_check("MC_Structure", "MC_Structure_C18_g2_s2.cfg", timeout=7200)
    recipes = []
    members = tc.generic_members(rng, 1 if q else 5) + tc.part_members(rng, 1 if q else 3) + tc.kit_members(rng, 1 if q else 4)
    for cspec, s, marks in members:
        n = len(s)
        for m in (rng.sample(masks(n, rng), 2) if q else masks(n, rng)):
            k = rng.randrange(n)
            recipes.append({"fn": "typing", "cls": cspec, "seq": gen.rotate(s, k), "twin": {"by": "case", "mask": m}})
        # a record refused because of an extra recognition site stays refused in every spelling
        from .. import classes as _cl
        cutter = _cl.build(cspec).cutter
        site = rng.choice([cutter.site, dna_rc(cutter.site)])
        pos = rng.randrange(n)
        s3 = s[:pos] + site + s[pos:]
        for m in ("1", "".join(rng.choice("01") for _ in range(len(s3)))):
            recipes.append({"fn": "typing", "cls": cspec, "seq": s3, "twin": {"by": "case", "mask": m}})
        # the base record may itself be lower/mixed case, and invalid records must stay invalid
        low = "".join(c.lower() if rng.random() < 0.5 else c for c in gen.mutate(s, rng))
        recipes.append({"fn": "typing", "cls": cspec, "seq": low, "twin": {"by": "case", "mask": rng.choice(masks(n, rng))}})
    for reg, key, seq, cspec in tc.registry_members(rng, 3 if q else 40):
        recipes.append({"fn": "typing", "cls": cspec, "seq": seq, "twin": {"by": "case", "mask": rng.choice(["1", "01", "0010"])}, "plasmid": key})
    # typing through characterize (the way registries type the files of a directory): same type in every spelling
    recipes += tc.characterize_twins(rng, q, "case")
    from ..typing_drv import exec_characterize
    traces = [exec_characterize(r) if r["fn"] == "characterize" else exec_typing(r) for r in recipes]
    for r, t in zip(recipes, traces):
        if t[0]["res"]["valid"]:
            run.distinct.add((t[0].get("cls", {}).get("name", t[0].get("base")), r["seq"], r["twin"]["mask"]))
    run.add_sample({"recipe": recipes[0], "event": traces[0][0]})
    run.validate("typing-case", "Trace_Typing", traces, recipes, sigfn=tc.typing_sig, describe=tc.typing_describe)
    try:
        from . import asm_common
        asm_common.twin_assemblies(run, "case")
    except ImportError:
        run.extra["assembly_part"] = "not built yet"
    return run.finish("TLC: CaseInv on the small worlds; I->S: (record, re-cased record) pairs (all lower, all upper, alternating, random "
                      "per letter) for generic, user part, kit classes and registry plasmids; distinct = accepted (class, record, mask)")


def replay_case(rec):
    from ..core import generic_replay
    from ..typing_drv import exec_characterize
    return generic_replay(rec, lambda r: exec_characterize(r) if r.get("fn") == "characterize" else exec_typing(r))
