"""C04 — reported overhangs and fragments are true restriction fragments of the cutter."""
from .. import classes, dna, enz, gen, loader
from ..core import Run
from ..typing_drv import exec_typing


def generic_recipes(rng, quick):
    """generic module / vector classes over every distinct real geometry and the miniature ones"""
    out = []
    geoms = [(classes.enz_spec(e), gen.geometry_of(e)) for e in enz.distinct_geometries()]
    geoms += [({"syn": list(g)}, gen.Geometry(*g)) for g in enz.MINI]
    per = 3 if quick else 12
    for espec, G in geoms:
        for role in ("module", "vector"):
            cspec = {"generic": role, "enz": espec}
            for _ in range(per):
                ov = G.overhangs(2, rng, "ACGT" if rng.random() < 0.7 else G.safe)
                if ov is None:
                    continue
                if role == "module":
                    s = G.module(ov[0], gen.rnd(rng.randint(2, 10), rng), ov[1], gen.rnd(rng.randint(0, 9), rng), rng)
                else:
                    s = G.vector(ov[0], ov[1], gen.rnd(rng.randint(0, 8), rng), gen.rnd(rng.randint(2, 9), rng), rng)
                if s is None:
                    continue
                n = len(s)
                ks = rng.sample(range(n), min(n, 3 if quick else 8))
                for k in ks:
                    out.append({"fn": "typing", "cls": cspec, "seq": gen.rotate(s, k)})
                # not well-formed: point mutations, an extra site in the backbone / in the target
                for _ in range(2 if quick else 6):
                    out.append({"fn": "typing", "cls": cspec, "seq": gen.rotate(gen.mutate(s, rng), rng.randrange(n))})
                extra = rng.choice([G.site, G.rcsite])
                pos = rng.randrange(n)
                s2 = s[:pos] + extra + s[pos:]
                out.append({"fn": "typing", "cls": cspec, "seq": gen.rotate(s2, rng.randrange(len(s2)))})
                # one letter of a recognition site written as a compatible ambiguity code (GGTCTS, RGTCTC, GGTCTN): the enzyme
                # does not cut there, so whatever the class accepts must still be explained by true cuts
                up_ = s.upper()
                hits = [i for i in range(n) if (up_ + up_)[i:i + len(G.site)] in (G.site, G.rcsite)]
                if hits:
                    j = (rng.choice(hits) + rng.randrange(len(G.site))) % n
                    codes = [c for c, m in gen.IUPAC.items() if c not in "ACGT" and up_[j] in m]
                    s3 = s[:j] + rng.choice(codes) + s[j + 1:]
                    out.append({"fn": "typing", "cls": cspec, "seq": gen.rotate(s3, rng.randrange(n))})
    return out


def kit_recipes(rng, quick):
    out = []
    kcs = classes.kit_classes()
    for spec, cls in kcs:
        st = cls.structure()
        for i in range(4 if quick else 16):
            s = gen.instantiate(st, rng, runlen=None if i else 0) + gen.rnd(rng.randint(0, 12), rng)
            n = len(s)
            for k in rng.sample(range(n), min(n, 2 if quick else 6)):
                out.append({"fn": "typing", "cls": spec, "seq": gen.rotate(s, k)})
            out.append({"fn": "typing", "cls": spec, "seq": gen.mutate(s, rng)})
        # neighbouring-kit structures: instances of another class of the same kit
        others = [c for sp, c in kcs if sp["kit"] == spec["kit"] and c is not cls]
        for o in rng.sample(others, min(len(others), 2 if quick else 6)):
            s = gen.instantiate(o.structure(), rng) + gen.rnd(rng.randint(0, 12), rng)
            out.append({"fn": "typing", "cls": spec, "seq": gen.rotate(s, rng.randrange(len(s)))})
    return out


def sig(clause, ev, trace):
    c = ev["cls"]
    return "%s|%s|%s" % (clause, c["role"], "generic" if c["generic"] else ("part" if c["sig"] else c["name"]))


def describe(clause, ev, trace):
    r = ev["res"]
    return "%s: class %s (%s) on %s reports valid=%s up=%s down=%s target=%s placeholder=%s" % (
        clause, ev["cls"]["name"], ev["cls"]["role"], dna.dec(ev["seq"]), r["valid"], dna.dec(r["up"]),
        dna.dec(r["down"]), dna.dec(r["tgt"]), dna.dec(r["ph"]))


def run(tier, seed):
    run = Run("C04", tier, seed)
    rng, q = run.rng, run.quick
    loader.load()
    from . import typing_common as tc
    tc.mc_structure(run, "C04", geoms_quick=(1, 2, 3))
    if not q:
        run.model_check("MC_Structure", "MC_Structure_C04_g6_s1.cfg", timeout=3600)   # growth: a recognition site with an ambiguity code
    recipes = generic_recipes(rng, q) + kit_recipes(rng, q)
    # the plasmids of the embedded registries, typed by the class their registry assigns (thorough: all 362, and
    # also by the signature-free class of the same enzyme, at a second origin)
    from .. import classes, gen as _gen
    regn = 0
    for reg, key, seq, cspec in tc.registry_members(rng, 6 if q else 0):
        recipes.append({"fn": "typing", "cls": cspec, "seq": seq, "plasmid": key})
        regn += 1
        if not q:
            k = rng.randrange(len(seq))
            recipes.append({"fn": "typing", "cls": classes.generic_spec_for(classes.build(cspec)), "seq": _gen.rotate(seq, k), "plasmid": key})
    # growth: cutters whose recognition site contains ambiguity codes (LpnPI CCDG, SgrTI CCDS): members, and look-alikes whose
    # second 'site' is not a site of the enzyme
    amb = tc.amb_members(rng, 2 if q else 12)
    for cspec, s, marks, kind in amb:
        for k in ([0, rng.randrange(len(s))] if q else rng.sample(range(len(s)), min(len(s), 6))):
            recipes.append({"fn": "typing", "cls": cspec, "seq": _gen.rotate(s, k)})
    run.extra["ambiguous_site_records"] = len(amb)
    run.extra["registry_plasmids_typed"] = regn
    traces = [exec_typing(r) for r in recipes]
    acc = 0
    for r, t in zip(recipes, traces):
        if t[0]["res"]["valid"]:
            acc += 1
            run.distinct.add((t[0]["cls"]["name"], r["seq"]))
    run.extra["accepted_records"] = acc
    run.add_sample({"recipe": recipes[0], "event": traces[0][0]})
    run.add_sample({"recipe": recipes[-1], "event": traces[-1][0]})
    run.validate("typing", "Trace_Typing", traces, recipes, sigfn=sig, describe=describe)
    # generic history fuzzer: live objects used again and again (wrap, query, rotate by 0, edit in place, assemble)
    from .. import scenario
    sc = scenario.run(rng, 20 if q else 200)
    run.validate("scenario-typing", "Trace_Typing", sc["typing"], None, sigfn=lambda c, ev, tr: c + "|history", describe=describe)
    return run.finish("I->S: typing queries of generic classes over %d real + %d synthetic geometries and of all kit classes "
                      "on generated members (all/sampled rotations), point mutants, extra sites and neighbouring-class "
                      "instances; TLC recomputes cuts from (site, off, ovh); distinct_nontrivial = distinct accepted (class, record) pairs"
                      % (len(enz.distinct_geometries()), len(enz.MINI)))


def replay_case(rec):
    from ..core import generic_replay
    return generic_replay(rec, exec_typing)
