"""C09 — the product records its provenance and is a complete GenBank record."""
from .. import gen, loader
from ..asm_drv import exec_assembly
from ..core import Run, generic_replay
from . import asm_common as ac

IDS = ["prod", "pX1", "A", "construct_1", "p.1-b", "assembly", "with space", "waytoolongidentifier_for_genbank_locus", ""]


def run(tier, seed):
    run = Run("C09", tier, seed)
    rng, q = run.rng, run.quick
    loader.load()
    run.model_check("MC_AssemblyDNA", "MC_AssemblyDNA_g2_s1.cfg" if q else "MC_AssemblyDNA_g1_s1.cfg", timeout=7200)
    recipes = []
    for r in ac.real_family_cases(rng, 2 if q else 10, 4, annotate=True, extra_unused=1):
        r["id"] = rng.choice(IDS[:6]) if rng.random() < 0.8 else rng.choice(IDS)
        r["name"] = r["id"] if rng.random() < 0.5 else rng.choice(IDS[:6])
        if rng.random() < 0.15:
            r["id"] = None
            r["name"] = None
        r["roundtrip"] = True
        recipes.append(r)
    # the same objects used twice, inputs stored with the origin exactly on a fragment boundary (rotation by 0 inside)
    from . import typing_common as tc
    for espec, G in tc.geometries():
        c = G.case(rng, rng.randint(1, min(2, G.capacity() - 1)))
        if c is None or (q and rng.random() < 0.5):
            continue
        k = len(G.site) + G.off
        mods = [{"id": "m%d" % (i + 1), "seq": m[k:] + m[:k]} for i, m in enumerate(c["modules"])]      # starts on its upstream overhang
        recipes.append({"fn": "assemble", "enz": espec, "vector": {"id": "vec", "seq": c["vector"]}, "modules": mods,   # starts on its downstream overhang
                        "id": "twice", "name": "twice", "warmup": True, "roundtrip": True})
    traces = ac.validate(run, "provenance", recipes)
    run.extra["roundtrips"] = sum(1 for t in traces if len(t) > 1)
    # multi-level: products re-used as modules (inner provenance nested in outer) - see C11's driver
    try:
        from . import c11
        c11.two_level(run, provenance=True)
    except ImportError:
        run.extra["multi_level"] = "not built yet"
    # generic history fuzzer: live objects used again and again (wrap, query, rotate by 0, edit in place, assemble)
    from .. import scenario
    sc = scenario.run(rng, 20 if q else 200)
    run.validate("scenario-assemblies", "Trace_Assembly", sc["assembly"], None, sigfn=ac.asm_sig, describe=ac.asm_describe)
    return run.finish("TLC: the fragment partition of the small world; I->S: products of assemblies over all geometries with various "
                      "ids/names: id, name, circular topology, comment naming vector and modules, one generated source feature per "
                      "retained fragment tiling the product and covering text found verbatim in the named plasmid; GenBank write + "
                      "read-back identity (sequence, topology, feature types and denotations) for GenBank-legal ids; distinct = inputs")


def replay_case(rec):
    return generic_replay(rec, exec_assembly)
