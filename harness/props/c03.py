"""C03 — ambiguous or incomplete module sets never produce a plasmid (outcome = f(overhang graph))."""
import itertools
import os
import shutil
import tempfile

from .. import dna, gen, loader, tlaval
from ..asm_drv import exec_assembly
from ..core import Run, generic_replay, log
from . import asm_common as ac
from . import typing_common as tc


def concretise(G, rng, symbols=("a", "A", "b", "B", "c", "C", "p")):
    """overhang symbols -> k-mers respecting the involution (x / X reverse-complementary, p palindromic)"""
    k = G.ovh
    if k % 2:
        return None                       # odd overhangs have no palindromes: the alphabet with p needs even k
    for _ in range(200):
        m = {}
        half = gen.rnd(k // 2, rng)
        m["p"] = half + dna.rc(half)
        ok = True
        for x in "abc":
            o = gen.rnd(k, rng)
            if o == dna.rc(o) or o in m.values() or dna.rc(o) in m.values():
                ok = False
                break
            m[x] = o
            m[x.upper()] = dna.rc(o)
        if ok and len(set(m.values())) == 7:
            return m
    return None


def scenario_recipe(G, espec, kmer, vec, mods, rng):
    """abstract scenario (vec=[s,e], mods=[[s,e]..]) -> assembly recipe with site-free random bodies"""
    v = G.vector(kmer[vec["e"]], kmer[vec["s"]], gen.rnd(rng.randint(0, 4), rng, G.safe), gen.rnd(rng.randint(2, 5), rng, G.safe), rng)
    if v is None:
        return None
    ms = []
    for i, m in enumerate(mods):
        s = G.module(kmer[m["s"]], gen.rnd(rng.randint(2, 5), rng, G.safe), kmer[m["e"]], gen.rnd(rng.randint(0, 4), rng, G.safe), rng)
        if s is None:
            return None
        ms.append({"id": "m%d" % (i + 1), "seq": gen.rotate(s, rng.randrange(len(s)))})
    return {"fn": "assemble", "enz": espec, "vector": {"id": "vec", "seq": gen.rotate(v, rng.randrange(len(v)))}, "modules": ms,
            "id": "p", "name": "p"}


def replay_graph(run, cfg, geoms, limit):
    """S->I: final states of the graph-level machine (vector, module sequence, outcome) are concretised to DNA and
    executed; the real outcome must be the one TLC computed (product chain / error / stall overhang / unused)."""
    rng = run.rng
    d = tempfile.mkdtemp(prefix="verif-dump-")
    path = os.path.join(d, "asm")
    run.model_check("MC_Assembly", cfg, extra=["-dump", path], coverage=True)
    finals = []
    for st in tlaval.parse_dump(path + ".dump"):
        if st["pc"] == "done" and st["faultAt"] == 0:
            finals.append(st)
    shutil.rmtree(d, ignore_errors=True)
    rng.shuffle(finals)
    # stratify by outcome so that rare outcomes (products) are all replayed
    byk = {}
    for st in finals:
        byk.setdefault(st["outcome"][0], []).append(st)
    chosen = []
    for kname, sts in byk.items():
        chosen += sts[: max(limit // len(byk), 50)]
    n = 0
    recipes, expect = [], []
    for st in chosen:
        espec, G = geoms[n % len(geoms)]
        kmer = concretise(G, rng)
        if kmer is None:
            continue
        r = scenario_recipe(G, espec, kmer, st["vec"], st["mods"], rng)
        if r is None:
            continue
        recipes.append(r)
        expect.append((st, kmer))
        n += 1
    traces = []
    for r, (st, kmer) in zip(recipes, expect):
        tr = exec_assembly(r)
        traces.append(tr)
        out = tr[0]["out"]
        want = st["outcome"]
        ok = True
        if want[0] == "product":
            ids = ["m%d" % i for i in want[1]]
            exp_seq = None
            ok = out["kind"] == "product" and sorted(out["unused"]) == sorted("m%d" % i for i in want[2]["__set__"])
        else:
            ok = out["exc"] == want[0]
            if ok and want[0] == "MissingModule":
                ok = dna.dec(out["attr_ovh"]).upper() == kmer[want[1]].upper()
        run.distinct.add((str(st["vec"]), str(st["mods"])))
        if not ok:
            run.violation("C03", "C03:ReplayedScenario", "C03:ReplayedScenario|%s->%s" % (want[0], out["exc"] or out["kind"]),
                          "overhang graph vector %s modules %s: the specification's machine ends with %s, the code (on %s) ended with %s %s unused=%s"
                          % (st["vec"], st["mods"], want, {k: kmer[k] for k in sorted(kmer)}, out["kind"], out["exc"], out["unused"]),
                          {"kind": "trace", "module": "Trace_Assembly", "clause": "C03:OutcomeIsExpected", "recipe": r, "event_index": 0,
                           "label": "replay", "spec_outcome": want})
    run.replayed["graph-scenarios"] = len(recipes)
    if recipes:
        run.add_sample({"scenario": {"vec": expect[0][0]["vec"], "mods": expect[0][0]["mods"], "spec_outcome": expect[0][0]["outcome"]},
                        "recipe": recipes[0]})
    return recipes, traces


def _dup_without_pal(st):
    ms = st["mods"]
    inv = {"a": "A", "A": "a", "b": "B", "B": "b", "c": "C", "C": "c", "p": "p"}
    for i in range(len(ms)):
        for j in range(len(ms)):
            if i != j and (ms[i]["s"] == ms[j]["s"] or ms[i]["s"] == inv[ms[j]["s"]]):
                return True
    return st["vec"]["s"] == st["vec"]["e"]


def run(tier, seed):
    run = Run("C03", tier, seed)
    rng, q = run.rng, run.quick
    loader.load()
    geoms = [(e, G) for e, G in tc.geometries() if G.ovh % 2 == 0 and G.ovh >= 2]
    geoms = [g for g in geoms if g[0].get("name") in ("BsaI", "BbsI", "BsmBI", "FokI") or "syn" in g[0]]
    run.model_check("MC_Assembly", "MC_Assembly_quick.cfg" if q else "MC_Assembly_thorough.cfg", coverage=True, timeout=7200)
    run.model_check("MC_Assembly", "Neg_AssemblyPal.cfg", expect_violation="C03_OutcomeIsExpected")
    recipes, traces = replay_graph(run, "MC_Assembly_replay.cfg" if q else "MC_Assembly_quick.cfg", geoms, 600 if q else 8000)
    # the replayed executions are also judged by the DNA-level trace specification
    run.validate("graph-scenarios", "Trace_Assembly", traces, recipes, sigfn=ac.asm_sig, describe=ac.asm_describe)
    # argument-order twins and unused modules on the real family
    rs = []
    for r in ac.real_family_cases(rng, 2 if q else 8, 4, extra_unused=1):
        order = list(range(len(r["modules"])))
        rng.shuffle(order)
        r["twin"] = {"by": "perm", "order": order}
        rs.append(r)
    for r in ac.real_family_cases(rng, 1 if q else 3, 3, extra_unused=1):
        # an unused module that carries the same record id as a used one (ids need not be unique)
        for m in r["modules"]:
            if m["id"].startswith("u"):
                m["id"] = "m1"
        r["twin"] = {"by": "perm", "order": list(range(len(r["modules"])))[::-1]}
        rs.append(r)
    # the same call twice in one session (warnings recorded in one block under Python's default action): the second call
    # names the same left-out modules as the first
    for r in ac.real_family_cases(rng, 1 if q else 3, 3, extra_unused=1):
        r["repeat"] = True
        rs.append(r)
    for r in ac.real_family_cases(rng, 1 if q else 4, 4):       # incomplete / duplicated sets
        x = rng.random()
        if x < 0.4 and len(r["modules"]) > 1:
            r["modules"].pop(rng.randrange(len(r["modules"])))
        elif x < 0.7:
            r["modules"].append(dict(r["modules"][rng.randrange(len(r["modules"]))], id="dup"))
        else:
            m = r["modules"][0]
            r["modules"].append({"id": "rcmod", "seq": dna.rc(m["seq"])})
        order = list(range(len(r["modules"])))
        rng.shuffle(order)
        r["twin"] = {"by": "perm", "order": order}
        rs.append(r)
    ac.validate(run, "order-twins", rs)
    return run.finish("TLC: the step machine equals Expected on every vector pair and every module SEQUENCE of <= 3 (thorough: larger "
                      "alphabet) over an overhang alphabet with reverse-complementary and palindromic symbols (exhaustive); S->I: final "
                      "states, stratified by outcome, concretised to DNA (k-mers respecting the involution) and executed, outcome / stall "
                      "overhang / unused set compared; I->S: the same executions and argument-order twins on the real family validated "
                      "by the DNA-level trace specification; distinct = distinct overhang graphs / input sets")


def replay_case(rec):
    return generic_replay(rec, exec_assembly)
