"""C06 — typing verdicts do not depend on what was typed before."""
import os
import re
import tempfile

from .. import classes, dna, enz, forked, gen, loader, tlaval, tlc
from ..core import Run, log
from ..typing_drv import query, record
from . import typing_common as tc


# ---- S -> I: every history TLC enumerated is replayed on a freshly built class tree ---------
def build_tree(world):
    """real classes mirroring the spec's forest (G; P1, P2 < G; Q < P1; V)"""
    from moclo import core
    site = dna.dec(world["enz"]["site"])
    cutter = enz.synthetic(site, world["enz"]["off"], world["enz"]["ovh"])
    G = type(str("G"), (core.Entry,), {"cutter": cutter})
    V = type(str("V"), (core.EntryVector,), {"cutter": cutter})

    def sig_of(toks):
        # the two signature groups are the literal runs inside groups 1 and 3
        groups, cur, depth = [], None, 0
        for t in toks:
            if t["k"] == "open":
                cur = []
            elif t["k"] == "close":
                groups.append(cur)
                cur = None
            elif cur is not None and t["k"] == "lit":
                cur.append(dna.DECODE[t["c"]])
        return "".join(groups[0]), "".join(groups[2])
    PB = type(str("PartBase"), (core.AbstractPart,), {"cutter": cutter})     # like YTKPart / CIDARPart
    P1 = type(str("P1"), (PB, G), {"signature": sig_of(world["classes"]["P1"]["toks"])})
    P2 = type(str("P2"), (PB, G), {"signature": sig_of(world["classes"]["P2"]["toks"])})
    Q = type(str("Q"), (P1,), {})
    # R: a user subclass that re-uses its parent's NAME with a signature of its own
    R = type(str("P2"), (P2,), {"signature": sig_of(world["classes"]["R"]["toks"])})
    tree = {"G": G, "P1": P1, "P2": P2, "Q": Q, "R": R, "V": V}
    for name, c in tree.items():
        mine = [{"k": t["k"], "c": t["c"], "lazy": t["lazy"]} for t in dna.tokens(c.structure())]
        spec = [{"k": t["k"], "c": t["c"], "lazy": t["lazy"]} for t in world["classes"][name]["toks"]]
        if mine != spec:
            raise tlc.TLCError("class %s of the replay world does not have the structure of the spec: %s vs %s" % (name, c.structure(), spec))
    return tree


def slot_owner(tree, c):
    rx = tree[c].__dict__.get("_regex")
    if rx is None:
        return "none"
    for k in [c] + sorted(tree):
        if tree[k].structure() == rx.pattern:
            return k
    return "foreign"


def replay_history(world, hist):
    tree = build_tree(world)
    obs = []
    for c, r in hist:
        seq = dna.dec(world["records"][r - 1])
        res = query(tree[c], record(seq))
        obs = [res["valid"], res["up"], res["down"]]
    cache = {c: slot_owner(tree, c) for c in tree}
    return obs, cache


def replay_dump(run, cfg):
    d = tempfile.mkdtemp(prefix="verif-dump-")
    path = os.path.join(d, "session")
    r = run.model_check("Session", cfg, extra=["-dump", path], coverage=True)
    m = re.search(r'<<\s*"WORLD"', r.out)
    world = tlaval.parse(r.out[m.start():])[1]
    n = 0
    seen = 0
    stride = 1 if run.quick else 2          # thorough: 810k histories of length <= 4 are enumerated by TLC, every 2nd replayed
    for st in tlaval.parse_dump(path + ".dump"):
        hist = st["hist"]
        if not hist:
            continue
        seen += 1
        if len(hist) == 4 and seen % stride:
            continue
        obs, cache = replay_history(world, hist)
        n += 1
        run.distinct.add(tuple(map(tuple, hist)))
        if n == 7:
            run.add_sample({"history": hist, "spec_obs": st["obs"], "impl_obs": obs, "impl_cache": cache})
        # a slot may legitimately be empty (an implementation is free not to cache on the class object);
        # a slot holding another class's pattern is what the property forbids
        cache_bad = any(v not in ("none", k) for k, v in cache.items())
        if obs != st["obs"] or cache_bad:
            run.violation("C06", "C06:ReplayedHistory", "C06:ReplayedHistory|%s" % ("obs" if obs != st["obs"] else "cache"),
                          "history %s on a fresh class tree: the specification says answer %s and cache %s, the code answered %s with cache %s"
                          % (hist, st["obs"], st["cache"], obs, cache),
                          {"kind": "replay", "world": world, "hist": hist, "spec_obs": st["obs"], "spec_cache": st["cache"]})
    run.replayed["session-histories"] = n
    import shutil
    shutil.rmtree(d, ignore_errors=True)


# ---- S -> I: wrapper objects, in-place edits, memoised matches (Wrappers.tla) ------------------
def replay_wrappers(run, cfg):
    """every history of Wrappers.tla that ends with a question is performed on real records and wrappers; the answer is
    compared with what the specification says it must be: the class's verdict on the sequence the memo was computed from"""
    import shutil
    from Bio.Seq import Seq
    from moclo.record import CircularRecord
    from .. import scenario
    rng = run.rng
    G = gen.Geometry("GGTCTC", 1, 4)
    up, down = "AATG", "GCTT"
    valid = G.module(up, "ACGTAC", down, "TTAACA", rng)
    k = len(valid) - 3                      # the origin moves into the upstream recognition site
    seqs = {"valid": valid, "rotated": gen.rotate(valid, k), "broken": valid[:2] + "A" + valid[3:]}
    cspecs = {"G": {"generic": "module", "enz": {"name": "BsaI"}}, "P": {"part": "module", "enz": {"name": "BsaI"}, "sig": [up, down]}}
    clss = {c: classes.build(sp) for c, sp in cspecs.items()}
    pub = lambda r: (r["valid"], r["up"], r["down"], r["tgt"], r["exc"])   # noqa: E731
    truth = {(c, sname): pub(fresh_answer(cspecs[c], sq)) for c in cspecs for sname, sq in seqs.items()}
    if not (truth[("G", "valid")][0] and truth[("G", "rotated")][0] and not truth[("G", "broken")][0]
            and truth[("G", "valid")][3] == truth[("G", "rotated")][3]):
        raise tlc.TLCError("the replay world of Wrappers.tla is not what it should be: %s" % truth)
    d = tempfile.mkdtemp(prefix="verif-dump-")
    path = os.path.join(d, "wrappers")
    run.model_check("Wrappers", cfg, extra=["-dump", path], coverage=False)
    init = None
    n = 0
    for st in tlaval.parse_dump(path + ".dump"):
        hist = st["hist"]
        if not hist:
            init = st["seq"]
            continue
        if hist[-1][0] != "ask":
            continue
        recs = {r: CircularRecord(Seq(seqs[(init or {}).get(r, "valid")]), id=r, name=r) for r in ("r1", "r2")}
        ws = []
        res = None
        for step in hist:
            if step[0] == "new":
                ws.append(clss[step[1]](recs[step[2]]))
            elif step[0] == "ask":
                res = scenario.query_wrapper(ws[step[1] - 1], clss[st["wcls"][step[1] - 1]])
            elif step[0] == "edit":
                recs[step[1]].seq = Seq(seqs[step[2]])
            elif step[0] == "drop":
                ws[step[1] - 1] = None
        if st["last"]["ans"][0] == "?":
            continue          # a stale wrapper (its record was edited after it had been asked): not specified
        want = truth[(st["last"]["ans"][0], st["last"]["ans"][1])]
        n += 1
        run.distinct.add(("wrappers",) + tuple(map(tuple, hist)))
        if n == 11:
            run.add_sample({"wrapper_history": hist, "spec_answer": st["last"]["ans"], "impl_answer": {"valid": res["valid"], "up": dna.dec(res["up"])}})
        if pub(res) != want:
            run.violation("C06", "C06:ReplayedWrapperHistory", "C06:ReplayedWrapperHistory|%s" % ("first" if st["last"]["first"] else "again"),
                          "history %s on real records and wrappers (G = generic BsaI module class, P = part class %s..%s; valid = %s, rotated = the same "
                          "plasmid from another origin, broken = one site letter changed): the specification says the last question is answered with "
                          "the verdict of class %s on the '%s' sequence %s, the code answered valid=%s up=%s down=%s target=%s exc=%s"
                          % (hist, up, down, valid, st["last"]["ans"][0], st["last"]["ans"][1], want[:1], res["valid"], dna.dec(res["up"]),
                             dna.dec(res["down"]), dna.dec(res["tgt"]), res["exc"]),
                          {"kind": "replay-wrappers", "hist": hist, "init": init, "ans": st["last"]["ans"], "seed": run.seed if hasattr(run, "seed") else 0})
    run.replayed["wrapper-histories"] = n
    shutil.rmtree(d, ignore_errors=True)


# ---- I -> S: histories over the kit classes, each in a forked child --------------------------
def child_history(steps):
    """runs in a fresh child: steps = [(class spec, seq)] -> events"""
    evs = []
    all_specs = {}
    shared = {}
    for step in steps:
        cspec, seq = step[0], step[1]
        circ = step[2] if len(step) > 2 else True
        cls = classes.build(cspec)
        plain = len(step) > 4 and step[4] == "plain"

        noid = len(step) > 4 and step[4] == "noid"

        def mk():
            if noid:        # a record built in memory without id / name
                return record(seq, circular=True, id_=None)
            if plain:       # a plain SeqRecord without any topology annotation (read from FASTA): circular by default
                from Bio.Seq import Seq
                from Bio.SeqRecord import SeqRecord
                return SeqRecord(Seq(seq), id="rec", name="rec")
            return record(seq, circular=circ)
        if len(step) > 3 and step[3]:       # the very same record object as in the earlier steps (their wrappers are still alive)
            rec = shared.setdefault((seq, circ, plain), mk())
        else:
            rec = mk()
        res = query(cls, rec)
        d = classes.describe(cls)
        rx = cls.__dict__.get("_regex")
        cached = dna.tokens_or_empty(rx.pattern) if rx is not None else []
        all_specs[cls.__name__] = cls
        slots = sorted(n for n, k in all_specs.items() if k.__dict__.get("_regex") is not None)
        # every class of the kit modules holding a slot (not only those asked) would be better: collect them
        evs.append({"ev": "Validate", "cls": {"name": d["name"], "role": d["role"], "toks": d["toks"], "enz": d["enz"]},
                    "cached": cached, "slots": slots_all(), "seq": dna.enc(seq), "circ": circ, "plain": bool(plain), "res": res})
    return evs


def slots_all():
    """names of all StructuredRecord subclasses currently holding a pattern of their own"""
    from moclo.core._structured import StructuredRecord
    out, todo, seen = [], [StructuredRecord], set()
    while todo:
        k = todo.pop()
        if k in seen:
            continue
        seen.add(k)
        if k.__dict__.get("_regex") is not None and k.__module__.startswith("moclo."):
            out.append(k.__name__)
        todo.extend(k.__subclasses__())
    return sorted(out)


def one_query(cspec, seq, circ=True, plain=False):
    if plain == "noid":
        return query(classes.build(cspec), record(seq, circular=True, id_=None))
    if plain:
        from Bio.Seq import Seq
        from Bio.SeqRecord import SeqRecord
        return query(classes.build(cspec), SeqRecord(Seq(seq), id="rec", name="rec"))
    return query(classes.build(cspec), record(seq, circular=circ))


_server = [None]


def fresh_answer(cspec, seq, circ=True, plain=False):
    return _server[0].call("harness.props.c06", "one_query", cspec, seq, circ, plain)


def run_history(h):
    return _server[0].call("harness.props.c06", "child_history", [list(x) for x in h])


def run(tier, seed):
    run = Run("C06", tier, seed)
    rng, q = run.rng, run.quick
    loader.load()
    import moclo.kits.ytk, moclo.kits.cidar, moclo.kits.ecoflex, moclo.kits.moclo, moclo.kits.plant  # noqa
    _server[0] = forked.Server()      # pristine template: kits imported, nothing validated yet
    # (M) + (S->I)
    replay_dump(run, "MC_Session.cfg" if q else "MC_Session_thorough.cfg")
    run.model_check("Session", "Neg_Session.cfg", expect_violation="C06_VerdictIndependent")
    # wrapper objects with memoised matches over mutable records (Wrappers.tla), deviations refuted, histories replayed
    replay_wrappers(run, "MC_Wrappers_quick.cfg" if q else "MC_Wrappers.cfg")
    for neg in ("class-record", "class-circle", "record"):
        run.model_check("Wrappers", "Neg_Wrappers_%s.cfg" % neg, expect_violation="C06_FirstAnswerIsCurrent")
    # (I->S) ordered pairs over the kit classes
    kcs = classes.kit_classes()
    members = {}
    for spec, cls in kcs:
        st = cls.structure()
        members[spec["name"]] = gen.instantiate(st, rng, runlen=rng.randint(2, 6)) + gen.rnd(rng.randint(2, 9), rng)
    pairs = []
    for sa, ca in kcs:
        for sb, cb in kcs:
            if ca is cb:
                continue
            related = issubclass(cb, ca) or issubclass(ca, cb) or (set(ca.__mro__) & set(cb.__mro__)) - set(ca.__mro__[-6:])
            same_kit = sa["kit"] == sb["kit"]
            if q and not ((related and same_kit) or rng.random() < 0.01):
                continue
            pairs.append((sa, sb))
    histories = []
    for sa, sb in pairs:
        # prime A on a record it accepts, then ask B about a record B accepts, and about A's record
        histories.append([(sa, members[sa["name"]]), (sb, members[sb["name"]]), (sb, members[sa["name"]])])
    # the same RECORD OBJECT shown to one class after the other (the earlier wrappers stay alive)
    for sa, sb in pairs:
        if rng.random() < (0.5 if q else 1.0):
            histories.append([(sa, members[sa["name"]], True, True), (sb, members[sa["name"]], True, True), (sb, members[sb["name"]], True, True),
                              (sa, members[sb["name"]], True, True)])
    # two classes with DIFFERENT enzymes shown the very same plasmid one directly after the other, the plasmid being a member of
    # the second class spoilt by one more site of the second class's enzyme (entry / entry-vector pairs of a kit read the same
    # stretch of such a plasmid): what the first class's look leaves behind must not make the second class overlook the site
    from . import typing_common as _tc
    nx = 0
    for sa, sb in pairs:
        ca, cb = classes.build(sa), classes.build(sb)
        if ca.cutter is cb.cutter:
            continue
        recx = _tc.with_extra_site(members[sb["name"]], str(cb.cutter.site), rng)
        histories.append([(sa, recx), (sb, recx)])
        histories.append([(sa, recx, True, True), (sb, recx, True, True)])
        nx += 1
    run.extra["cross_enzyme_spoilt_pairs"] = nx
    # user classes written next to a kit class whose signature spells the same letters in lower case
    # (lower-case ambiguity letters are literal in a pattern, so the two classes are different)
    for sp, c in kcs:
        if classes.signature_typed(c) and any(ch in "NRYSWKMBDHV" for ch in "".join(c.signature)):
            sib = {"sibling_of": sp, "sig": [x.lower() for x in c.signature], "name": "Lab" + sp["name"]}
            rec = members[sp["name"]]
            st = classes.build(sib).structure()
            own = gen.instantiate(st, rng, runlen=rng.randint(2, 6)) + gen.rnd(rng.randint(2, 9), rng)
            histories.append([(sib, rec), (sp, rec), (sp, own), (sib, own)])
            histories.append([(sp, rec), (sib, rec), (sib, own), (sp, own)])
    # one plain SeqRecord object (no topology annotation) shown to one class after the other, the structure running through its origin
    for sa, sb in (rng.sample(pairs, min(len(pairs), 40)) if q else pairs):
        mB = members[sb["name"]]
        rot = gen.rotate(mB, len(mB) - rng.randrange(3, 9))
        histories.append([(sa, rot, True, True, "plain"), (sb, rot, True, True, "plain")])
    # ... in particular after the record was merely wrapped / typed by one of the product classes of the kits
    for sp, c in kcs:
        if "Product" in sp["name"]:
            for sb, cb in rng.sample(kcs, 4 if q else 20):
                mB = members[sb["name"]]
                rot = gen.rotate(mB, len(mB) - rng.randrange(3, 9))
                histories.append([(sp, rot, True, True, "plain"), (sb, rot, True, True, "plain")])
    # classes of different kits with the very same structure (their cutters are different objects: BbsI / BpiI), one after the other
    for sa, ca in kcs:
        for sb, cb in kcs:
            if ca is not cb and sa["kit"] != sb["kit"] and ca.structure() == cb.structure():
                histories.append([(sa, members[sa["name"]]), (sb, members[sa["name"]]), (sb, members[sb["name"]])])
    # records built in memory without identifiers, typed (targets included) by several classes in a row
    for sa, sb in (rng.sample(pairs, min(len(pairs), 25)) if q else pairs):
        histories.append([(sa, members[sa["name"]], True, False, "noid"), (sb, members[sb["name"]], True, False, "noid"),
                          (sa, members[sa["name"]], True, False, "noid")])
    # user part classes that share enzyme AND signature, one a module type and one a vector type (mirror-image structures)
    for espec, G in tc.geometries():
        sig = [tc.rnd_signature(G.ovh, rng), tc.rnd_signature(G.ovh, rng)]
        pm = {"part": "module", "enz": espec, "sig": sig, "name": "PM"}
        pv = {"part": "vector", "enz": espec, "sig": sig, "name": "PV"}
        up, down = tc.sig_instance(sig[0], rng), tc.sig_instance(sig[1], rng)
        mM = G.module(up, gen.rnd(5, rng), down, gen.rnd(4, rng), rng)
        mV = G.vector(down, up, gen.rnd(3, rng), gen.rnd(5, rng), rng)
        if mM and mV:
            histories.append([(pm, mM), (pv, mV), (pv, mM), (pm, mV)])
            histories.append([(pv, mV), (pm, mM), (pm, mV), (pv, mM)])
    # longer random histories, also with dynamically created subclasses
    for _ in range(40 if q else 600):
        h = []
        for _ in range(rng.randint(3, 7)):
            sp, c = rng.choice(kcs)
            rec = members[rng.choice([sp["name"], rng.choice(kcs)[0]["name"]])]
            if rng.random() < 0.3:          # a record the class refuses because of an extra recognition site
                pos = rng.randrange(len(rec))
                rec = rec[:pos] + c.cutter.site + rec[pos:]
            h.append((sp, gen.rotate(rec, rng.randrange(len(rec))) if rng.random() < 0.6 else rec, True, rng.random() < 0.5))
        histories.append(h)
    # the same letters typed as a linear and as a circular record by the same class, in both orders, with the
    # structure running through the origin (so that the two topologies legitimately differ)
    for sp, c in rng.sample(kcs, 12 if q else len(kcs)):
        rec = members[sp["name"]]
        k = rng.randrange(3, 9)
        rot = gen.rotate(rec, len(rec) - k)           # the structure now starts k letters before the end
        histories.append([(sp, rot, False), (sp, rot, True), (sp, rec, False)])
        histories.append([(sp, rot, True), (sp, rot, False), (sp, rec, True)])
    # user subclasses of the plain level classes of the kits that only declare another cutter: parent first, then child
    from Bio import Restriction as _BR
    plain = [(sp, c) for sp, c in kcs if classes.describe(c)["generic"]]
    others = [e for e in enz.distinct_geometries() if e.__name__ in ("BsmBI", "BbsI", "BsaI", "FokI", "BspQI", "AarI")]
    for sp, c in (rng.sample(plain, min(len(plain), 8)) if q else plain):
        e2 = rng.choice([e for e in others if e is not c.cutter])
        child = {"subclass_of": sp, "enz": classes.enz_spec(e2), "name": "Custom" + sp["name"] + e2.__name__}
        G2 = gen.geometry_of(e2)
        ov = G2.overhangs(2, rng)
        rec2 = G2.module(ov[0], gen.rnd(5, rng), ov[1], gen.rnd(4, rng), rng) if classes.role_of(c) == "module" \
            else G2.vector(ov[0], ov[1], gen.rnd(3, rng), gen.rnd(5, rng), rng)
        if rec2:
            histories.append([(sp, members[sp["name"]]), (child, rec2), (child, members[sp["name"]])])
    # user subclasses that write a structure() of their own with a FOURTH capture group (same cutter): asked twice, then after
    # the parent; the first look at such a class must not differ from the later ones
    for sp, c in (rng.sample(plain, min(len(plain), 6)) if q else plain):
        child = {"subclass_of": sp, "enz": classes.enz_spec(c.cutter), "name": "Barcoded" + sp["name"], "extra_group": rng.choice(["(NN)", "(N)", "(N*?)"])}
        rec4 = members[sp["name"]]
        histories.append([(child, rec4), (child, rec4), (sp, rec4), (child, gen.rotate(rec4, 3))])
    run.extra["kit_class_pairs"] = len(pairs)
    base = {}
    traces = []
    for h in histories:
        evs = run_history(h)
        for step, ev in zip(h, evs):
            cspec, seq = step[0], step[1]
            circ = step[2] if len(step) > 2 else True
            plain = (len(step) > 4 and step[4] in ("plain", "noid")) and step[4]
            key = (cspec.get("name") or repr(sorted(cspec.items(), key=str)), seq, circ, plain)
            if key not in base:
                base[key] = fresh_answer(cspec, seq, circ, plain)
            ev["fresh"] = base[key]
        traces.append(evs)
        run.distinct.add(tuple((st[0].get("name", "?"), st[1], len(st) < 3 or st[2], len(st) > 3 and st[3]) for st in h))
    run.add_sample({"history": [(st[0]["name"], st[1]) for st in histories[0]], "events": traces[0]})
    recipes = [{"fn": "history", "steps": h} for h in histories]
    run.validate("kit-histories", "Trace_Session", traces, recipes, sigfn=lambda c, ev, tr: "%s|%s" % (c, "first" if ev is tr[0] else "later"),
                 describe=lambda c, ev, tr: "%s: after %s, class %s on %s answered valid=%s up=%s down=%s (fresh process: valid=%s); slot holds %s"
                 % (c, [e["cls"]["name"] for e in tr[:tr.index(ev)]], ev["cls"]["name"], dna.dec(ev["seq"]), ev["res"]["valid"],
                    dna.dec(ev["res"]["up"]), dna.dec(ev["res"]["down"]), ev["fresh"]["valid"],
                    "its own structure" if ev["cached"] == ev["cls"]["toks"] else "another pattern"))
    # generic history fuzzer: live objects used again and again (wrap, query, rotate by 0, edit in place, assemble)
    from .. import scenario
    sc = scenario.run(rng, 20 if q else 200)
    run.validate("scenario-typing", "Trace_Typing", sc["typing"], None, sigfn=lambda c, ev, tr: c + "|history",
                 describe=lambda c, ev, tr: "%s: after a history on live objects, class %s on %s answered %s" % (c, ev["cls"]["name"], dna.dec(ev["seq"]), {k: v for k, v in ev["res"].items() if k in ("valid", "again", "qexc")}))
    # ... and every answer of those histories is compared with the answer of a fresh process
    nfresh = 0
    for tr in sc["typing"]:
        for ev in tr:
            seq = dna.dec(ev["seq"])
            fr = fresh_answer(ev["cspec"], seq)
            nfresh += 1
            got, want = ev["res"], fr
            if (got["valid"], got["up"], got["down"], got["tgt"], got["exc"]) != (want["valid"], want["up"], want["down"], want["tgt"], want["exc"]):
                run.violation("C06", "C06:SameAsFresh", "C06:SameAsFresh|history",
                              "after a history on live objects (records edited in place, wrapped again while earlier wrappers are alive) class %s on %s "
                              "answered valid=%s up=%s down=%s target=%s; a fresh process answers valid=%s up=%s down=%s target=%s"
                              % (ev["cls"]["name"], seq, got["valid"], dna.dec(got["up"]), dna.dec(got["down"]), dna.dec(got["tgt"]),
                                 want["valid"], dna.dec(want["up"]), dna.dec(want["down"]), dna.dec(want["tgt"])),
                              {"kind": "scenario", "note": "history-dependent: re-run the check with the same seed", "cspec": ev["cspec"], "seq": seq})
    run.extra["scenario_answers_compared_with_fresh"] = nfresh
    return run.finish("TLC: every validation history of length <= %d over the class forest {G; P1,P2<G; Q<P1; V} x 5 records (exhaustive); "
                      "negative model (inherited cache lookup) refuted; S->I: every enumerated history replayed on a freshly built real "
                      "class tree (answer and cache slots compared); I->S: ordered pairs and random histories over the 85 kit classes, "
                      "each in a forked child, each answer compared with a fresh process and with Typing of the class's own structure; "
                      "distinct = distinct histories" % (3 if q else 4))


def replay_case(rec):
    case = rec["case"]
    if case.get("kind") == "replay":
        obs, cache = replay_history(case["world"], case["hist"])
        log("replay: history %s -> obs %s cache %s (spec: %s %s)" % (case["hist"], obs, cache, case["spec_obs"], case["spec_cache"]))
        return obs != case["spec_obs"] or any(v not in ("none", k) for k, v in cache.items())
    if case.get("kind") == "replay-wrappers":
        # the history of Wrappers.tla is performed again on real objects; the expected answer is the fresh verdict of the class
        # named by the specification on the sequence named by the specification
        import random
        loader.load()
        from Bio.Seq import Seq
        from moclo.record import CircularRecord
        from .. import scenario
        import moclo.kits.ytk, moclo.kits.cidar, moclo.kits.ecoflex, moclo.kits.moclo, moclo.kits.plant  # noqa
        _server[0] = forked.Server()
        rng = random.Random(int(case.get("seed", 0)) * 1000003 + 6)
        G = gen.Geometry("GGTCTC", 1, 4)
        up, down = "AATG", "GCTT"
        valid = G.module(up, "ACGTAC", down, "TTAACA", rng)
        seqs = {"valid": valid, "rotated": gen.rotate(valid, len(valid) - 3), "broken": valid[:2] + "A" + valid[3:]}
        cspecs = {"G": {"generic": "module", "enz": {"name": "BsaI"}}, "P": {"part": "module", "enz": {"name": "BsaI"}, "sig": [up, down]}}
        clss = {c: classes.build(sp) for c, sp in cspecs.items()}
        init = case.get("init") or {}
        recs = {r: CircularRecord(Seq(seqs[init.get(r, "valid")]), id=r, name=r) for r in ("r1", "r2")}
        ws, wc, res = [], [], None
        for step in case["hist"]:
            if step[0] == "new":
                ws.append(clss[step[1]](recs[step[2]]))
                wc.append(step[1])
            elif step[0] == "ask":
                res = scenario.query_wrapper(ws[step[1] - 1], clss[wc[step[1] - 1]])
            elif step[0] == "edit":
                recs[step[1]].seq = Seq(seqs[step[2]])
            elif step[0] == "drop":
                ws[step[1] - 1] = None
        fr = fresh_answer(cspecs[case["ans"][0]], seqs[case["ans"][1]])
        log("replay: %s -> valid=%s up=%s ; specification: class %s on the %s sequence -> valid=%s up=%s"
            % (case["hist"], res["valid"], dna.dec(res["up"]), case["ans"][0], case["ans"][1], fr["valid"], dna.dec(fr["up"])))
        return (res["valid"], res["up"], res["down"], res["tgt"], res["exc"]) != (fr["valid"], fr["up"], fr["down"], fr["tgt"], fr["exc"])
    if case.get("kind") == "scenario":
        # the history is not stored; the violation is confirmed by re-running the scenario part of the check
        import random
        from .. import scenario
        loader.load()
        import moclo.kits.ytk, moclo.kits.cidar, moclo.kits.ecoflex, moclo.kits.moclo, moclo.kits.plant  # noqa
        _server[0] = forked.Server()
        sc = scenario.run(random.Random(rec.get("seed", 0)), 60)
        for tr in sc["typing"]:
            for ev in tr:
                fr = fresh_answer(ev["cspec"], dna.dec(ev["seq"]))
                if (ev["res"]["valid"], ev["res"]["up"], ev["res"]["down"], ev["res"]["tgt"]) != (fr["valid"], fr["up"], fr["down"], fr["tgt"]):
                    return True
        return False
    from ..core import generic_replay

    def ex(r):
        loader.load()
        import moclo.kits.ytk, moclo.kits.cidar, moclo.kits.ecoflex, moclo.kits.moclo, moclo.kits.plant  # noqa
        _server[0] = forked.Server()
        steps = [tuple(st) for st in r["steps"]]
        evs = run_history(steps)
        for st, ev in zip(steps, evs):
            ev["fresh"] = fresh_answer(st[0], st[1], st[2] if len(st) > 2 else True, (len(st) > 4 and st[4] in ("plain", "noid")) and st[4])
        return evs
    return generic_replay(rec, ex)
