"""C16 — DNA pattern search has exact IUPAC, circular and group-extraction semantics."""
import itertools

from .. import dna, loader
from ..core import Run

LETTERS_Q = "ACNRB"
RUNS = ["N*", "N*?", "A*", "R*?"]
BIG = 10 ** 6


def exec_search(r):
    """recipe -> trace (one Search event) by calling the real DNARegex."""
    loader.load()
    from Bio.Seq import Seq
    from Bio.SeqRecord import SeqRecord
    from moclo.record import CircularRecord
    from moclo.regex import DNARegex
    kind = r["kind"]
    if kind == "Seq":
        target = Seq(r["target"])
    elif kind == "SeqRecord":
        target = SeqRecord(Seq(r["target"]), id="t")
    else:
        target = CircularRecord(Seq(r["target"]), id="t")
    kw = {}
    if r.get("pos") is not None:
        kw["pos"] = r["pos"]
    if r.get("endpos") is not None:
        kw["endpos"] = r["endpos"]
    if r.get("linear") is not None:
        kw["linear"] = r["linear"]
    circ = kind == "CircularRecord" or r.get("linear") is False
    ev = {"ev": "Search", "toks": dna.tokens(r["pattern"]), "seq": dna.enc(r["target"]), "circ": circ,
          "pos": r.get("pos") or 0, "endpos": BIG if r.get("endpos") is None else r["endpos"]}
    try:
        m = DNARegex(r["pattern"]).search(target, **kw)
        if m is None:
            ev["res"] = {"ok": False, "s": 0, "e": 0, "spans": [], "groups": []}
        else:
            g = m.match.re.groups
            groups = []
            for i in range(g + 1):
                x = m.group(i)
                groups.append(dna.enc(x.seq if hasattr(x, "seq") else x))
            ev["res"] = {"ok": True, "s": m.start(), "e": m.end(),
                         "spans": [list(m.span(i)) for i in range(g + 1)], "groups": groups}
    except Exception as ex:  # noqa
        ev["res"] = {"ok": False, "exc": type(ex).__name__, "s": 0, "e": 0, "spans": [], "groups": []}
    return [ev]


def exec_pair(r):
    """one DNARegex instance and one target OBJECT searched twice (linear, then circular, or the reverse)"""
    loader.load()
    from Bio.Seq import Seq
    from Bio.SeqRecord import SeqRecord
    from moclo.regex import DNARegex
    target = Seq(r["target"]) if r["kind"] == "Seq" else SeqRecord(Seq(r["target"]), id="t")
    rx = DNARegex(r["pattern"])
    evs = []
    for linear in r["order"]:
        ev = {"ev": "Search", "toks": dna.tokens(r["pattern"]), "seq": dna.enc(r["target"]), "circ": not linear, "pos": 0, "endpos": BIG}
        try:
            m = rx.search(target, linear=linear)
            if m is None:
                ev["res"] = {"ok": False, "s": 0, "e": 0, "spans": [], "groups": []}
            else:
                g = m.match.re.groups
                groups = []
                for i in range(g + 1):
                    x = m.group(i)
                    groups.append(dna.enc(x.seq if hasattr(x, "seq") else x))
                ev["res"] = {"ok": True, "s": m.start(), "e": m.end(), "spans": [list(m.span(i)) for i in range(g + 1)], "groups": groups}
        except Exception as ex:  # noqa
            ev["res"] = {"ok": False, "exc": type(ex).__name__, "s": 0, "e": 0, "spans": [], "groups": []}
        evs.append(ev)
    return evs


def exec_letter(r):
    loader.load()
    from Bio.Seq import Seq
    from moclo.regex import DNARegex
    p, x = r["p"], r["x"]
    res = DNARegex(p).search(Seq(x)) is not None
    return [{"ev": "Letter", "p": dna.CODE[p], "x": dna.enc(x)[0], "res": res}]


EXEC = {"search": exec_search, "letter": exec_letter, "pair": exec_pair}


def patterns(max_items, rng, per_shape):
    """Pattern strings: <= max_items items (letters / runs), 0-2 capture groups."""
    items = list(LETTERS_Q) + RUNS
    out = []
    for k in range(1, max_items + 1):
        for combo in itertools.product(items, repeat=k):
            if sum(1 for c in combo if "*" in c) > 2:
                continue
            layouts = [()]
            ivs = [(i, j) for i in range(k) for j in range(i + 1, k + 1)]
            layouts += [(iv,) for iv in ivs]
            two = [(a, b) for a in ivs for b in ivs if a < b and (a[1] <= b[0] or (a[0] <= b[0] and b[1] <= a[1]))]
            layouts += two
            chosen = layouts if len(layouts) <= per_shape else [layouts[0]] + rng.sample(layouts[1:], per_shape - 1)
            for lay in chosen:
                opens = [0] * (k + 1)
                closes = [0] * (k + 1)
                for (i, j) in lay:
                    opens[i] += 1
                    closes[j] += 1
                s = ""
                for i in range(k):
                    s += "(" * opens[i] + combo[i]
                    s += ")" * closes[i + 1]
                out.append(s)
    return out


def ranges(n):
    return [(None, None), (1, None), (0, max(n - 1, 0)), (n, None), (1, n), (n - 1 if n else 0, n + 1)]


def run(tier, seed):
    run = Run("C16", tier, seed)
    rng = run.rng
    q = run.quick
    # (M) the specification's own theorems at small scope
    run.model_check("MC_DNARegex", "MC_DNARegex_quick.cfg" if q else "MC_DNARegex_thorough.cfg")
    # (I->S) the letter table, exhaustively: 15 codes x (4 nucleotides + N) x 2 cases
    recipes = [{"fn": "letter", "p": p, "x": x} for p in dna.LETTERS for x in "ACGTacgtNn"]
    # small-scope enumeration
    pats = patterns(3 if q else 4, rng, 3 if q else 6)
    if q:
        pats = rng.sample(pats, min(len(pats), 900))
    else:
        pats = rng.sample(pats, min(len(pats), 4000))
    nmax = 4 if q else 5
    targets = ["".join(t) for n in range(1, nmax + 1) for t in itertools.product("ACGT", repeat=n)]
    for p in pats:
        ts = rng.sample(targets, 10 if q else 25)
        for t in ts:
            if rng.random() < 0.25:
                t = "".join(c.lower() if rng.random() < 0.5 else c for c in t)
            n = len(t)
            for kind, linear in (("Seq", None), ("Seq", False), ("SeqRecord", None), ("CircularRecord", None), ("SeqRecord", False)):
                if kind != "Seq" and rng.random() < 0.5:
                    continue
                for (a, b) in rng.sample(ranges(n), 2) + [(None, None)]:
                    recipes.append({"fn": "search", "pattern": p, "target": t, "kind": kind, "linear": linear,
                                    "pos": a, "endpos": b})
    # kit-like structures on longer random plasmids with the origin everywhere
    structs = ["GGTCTCN(NNNN)(NN*N)(NNNN)NGAGACC", "N(NNNN)(NGAGACCN*GGTCTCN)(NNNN)N", "GA(NN)(N*?)(NN)TC",
               "CGTCTCN(NNGG)(TCTCNNNNNN*?NNNNNGA)(GACC)NGAGACG", "GAAGACNN(NNNN)(NN*N)(NNNN)NNGTCTTC"]
    for s in structs:
        for _ in range(4 if q else 40):
            inst = instantiate(s, rng)
            bb = "".join(rng.choice("ACGT") for _ in range(rng.randint(0, 12)))
            w = inst + bb
            for k in (range(len(w)) if not q else rng.sample(range(len(w)), min(len(w), 14))):
                t = w[-k:] + w[:-k] if k else w
                recipes.append({"fn": "search", "pattern": s, "target": t, "kind": "CircularRecord", "linear": None,
                                "pos": None, "endpos": None})
    # the same pattern object and the same target object asked twice, as a line and as a circle
    for s_ in structs[:3]:
        for _ in range(6 if q else 40):
            inst = instantiate(s_, rng) + "".join(rng.choice("ACGT") for _ in range(rng.randint(0, 8)))
            k = rng.randrange(1, len(inst))
            recipes.append({"fn": "pair", "pattern": s_, "target": inst[-k:] + inst[:-k], "kind": rng.choice(["Seq", "SeqRecord"]),
                            "order": rng.choice([[True, False], [False, True], [True, False, True]])})
    traces = [EXEC[r["fn"]](r) for r in recipes]
    for r, t in zip(recipes, traces):
        ev = t[0]
        if ev["ev"] == "Search":
            res = ev["res"]
            if res["ok"] and res["e"] > len(ev["seq"]):
                run.distinct.add((r["pattern"], r["target"], r["kind"], str(r.get("linear", r.get("order"))), r.get("pos"), r.get("endpos")))
    run.extra["searches_wrapping_the_origin"] = len(run.distinct)
    run.add_sample({"recipe": recipes[len(recipes) // 2], "event": traces[len(recipes) // 2][0]})
    run.add_sample({"recipe": recipes[-1], "event": traces[-1][0]})
    run.validate("search", "Trace_Regex", traces, recipes, sigfn=sig, describe=describe)
    return run.finish(
        "I->S: every DNARegex.search call of the enumeration (patterns of <=%d items over letters %s, runs %s, 0-2 groups; "
        "targets over ACGT of length 1..%d in both cases; Seq linear/circular, SeqRecord, CircularRecord; 6 start ranges) plus "
        "kit-like structures at rotations, each recomputed by TLC with DNARegex!Search; distinct_nontrivial counts distinct "
        "searches whose match runs past the end of the target" % (3 if q else 4, LETTERS_Q, RUNS, nmax))


def instantiate(struct, rng, runlen=None):
    out = []
    i = 0
    while i < len(struct):
        c = struct[i]
        if c in "()":
            i += 1
            continue
        nxt = struct[i + 1] if i + 1 < len(struct) else ""
        if nxt == "*":
            k = rng.randint(0, 6) if runlen is None else runlen
            out.append("".join(rng.choice(sorted(IUPAC[c])) for _ in range(k)))
            i += 3 if struct[i + 2:i + 3] == "?" else 2
        else:
            out.append(rng.choice(sorted(IUPAC[c])))
            i += 1
    return "".join(out)


IUPAC = {"A": "A", "C": "C", "G": "G", "T": "T", "R": "AG", "Y": "CT", "S": "CG", "W": "AT", "K": "GT", "M": "AC",
         "B": "CGT", "D": "AGT", "H": "ACT", "V": "ACG", "N": "ACGT"}


def sig(clause, ev, trace):
    if ev["ev"] == "Search":
        res = ev["res"]
        wrap = res.get("ok") and any(b > len(ev["seq"]) > a for a, b in res["spans"])
        return "%s|%s|%s" % (clause, "circular" if ev["circ"] else "linear", "group-straddles-origin" if wrap else "plain")
    return clause


def describe(clause, ev, trace):
    if ev["ev"] == "Search":
        return "%s: search over %s (circular=%s, pos=%s, endpos=%s) returned %s" % (
            clause, dna.dec(ev["seq"]), ev["circ"], ev["pos"], ev["endpos"],
            {k: (v if k != "groups" else [dna.dec(g) for g in v]) for k, v in ev["res"].items()})
    return "%s: %s" % (clause, ev)



def replay_case(rec):
    from ..core import generic_replay
    return generic_replay(rec, lambda r: EXEC[r["fn"]](r))
