"""C19 — parts of the same type are interchangeable."""
from .. import gen, loader
from ..asm_drv import exec_assembly
from ..core import Run, generic_replay
from . import asm_common as ac
from . import typing_common as tc


def run(tier, seed):
    run = Run("C19", tier, seed)
    rng, q = run.rng, run.quick
    loader.load()
    run.model_check("MC_Assembly", "MC_Assembly_quick.cfg" if q else "MC_Assembly_thorough.cfg", coverage=True, timeout=7200)
    recipes = []
    for espec, G in tc.geometries():
        for _ in range(2 if q else 8):
            nm = rng.randint(1, min(4, G.capacity() - 1))
            c = G.case(rng, nm)
            if c is None:
                continue
            mods = [{"id": "m%d" % (i + 1), "seq": gen.rotate(s, rng.randrange(len(s)))} for i, s in enumerate(c["modules"])]
            for pos in (range(nm) if not q else [rng.randrange(nm)]):
                # a fresh module with the same overhangs, another target length, another backbone, any rotation, maybe lower case
                new = G.module(c["overhangs"][pos], gen.rnd(rng.randint(2, 14), rng), c["overhangs"][pos + 1], gen.rnd(rng.randint(0, 9), rng), rng)
                if new is None:
                    continue
                new = gen.rotate(new, rng.randrange(len(new)))
                if rng.random() < 0.3:        # written the way many labs do: backbone and sites in lower case, insert in upper case
                    new = "".join(ch.lower() if rng.random() < 0.5 else ch for ch in new)
                if rng.random() < 0.3:        # the very same plasmid, loaded with another origin
                    new = gen.rotate(c["modules"][pos], rng.randrange(1, len(c["modules"][pos])))
                if rng.random() < 0.25:
                    # a backbone that was never domesticated: one more (forward) site of the enzyme BEHIND the structure, the
                    # record starting on its structure (so that the class reads the structure first and accepts the plasmid)
                    alt = G.module(c["overhangs"][pos], gen.rnd(rng.randint(2, 9), rng), c["overhangs"][pos + 1], gen.rnd(rng.randint(1, 4), rng, G.safe), rng)
                    if alt:
                        new = alt + G.site + gen.rnd(rng.randint(2, 6), rng, G.safe)
                r = {"fn": "assemble", "enz": espec, "vector": {"id": "vec", "seq": gen.rotate(c["vector"], rng.randrange(len(c["vector"])))},
                     "modules": list(mods), "id": "p", "name": "p",
                     "twin": {"by": "swap", "pos": pos, "mod": {"id": "new", "seq": new}, "reuse": rng.random() < 0.5}}
                recipes.append(r)
        # curated inputs (feature tables, citations, shared references): one module exchanged, every other OBJECT used again
        for _ in range(1 if q else 4):
            nm = rng.randint(2, max(2, min(3, G.capacity() - 1)))
            r = ac.case_recipe(G, espec, rng, nm, annotate=True, refs=True, shuffle=False)
            if r is None or len(r["modules"]) < 2:
                continue
            pos = rng.randrange(len(r["modules"]))
            old = r["modules"][pos]
            if rng.random() < 0.5:        # sequencing-verified inputs: every one carries a per-letter quality track (the replacement need not)
                for x in [r["vector"]] + r["modules"]:
                    x["letter"] = True
            import copy as _copy
            mod = _copy.deepcopy(old)
            mod["id"] = "new"
            if rng.random() < 0.5:
                # the replacement is the better curated file of the same part: a long reference list, a feature citing a late entry
                mod["refs"] = list(mod.get("refs", [])) + ["curated-%d" % x for x in range(12 - len(mod.get("refs", [])))]
                cited = [f for f in mod.get("feats", []) if f.get("cites")]
                if cited:
                    cited[-1]["cites"] = [rng.randint(10, 12)]
                mod["rot"] = rng.randrange(1, len(old["seq"]))           # stored at another origin (the library's own >>)
            else:
                mod.update(seq=gen.rotate(old["seq"], rng.randrange(1, len(old["seq"]))), feats=[], refs=[])
                mod.pop("letter", None)
            r["twin"] = {"by": "swap", "pos": pos, "reuse": True, "mod": mod}
            recipes.append(r)
    if True:       # same-type replacements among real registry plasmids
        from . import registry_asm
        rr = registry_asm.swap_recipes(rng, q)[:(3 if q else 24)]
        run.extra["registry_swaps"] = len(rr)
        recipes += rr
    ac.validate(run, "swaps", recipes)
    return run.finish("TLC: in every successful outcome of the graph machine each chain position is determined by overhangs only "
                      "(Interchange); I->S: successful assemblies over all geometries, every (quick: one) chain position replaced by a "
                      "fresh module with the same overhangs, another target length / backbone / rotation; TLC checks the new product is "
                      "the closed form with only that segment exchanged; distinct = distinct (inputs, position)")


def replay_case(rec):
    return generic_replay(rec, exec_assembly)
