"""Recipe builders shared by the typing properties C02, C04, C05, C12, C17, C18."""
from .. import classes, dna, enz, gen, loader, registries


def geometries(mini=True):
    out = [(classes.enz_spec(e), gen.geometry_of(e)) for e in enz.distinct_geometries()]
    if mini:
        out += [({"syn": list(g)}, gen.Geometry(*g)) for g in enz.MINI]
    return out


def amb_geometries():
    """growth: Type IIS enzymes of the same kind whose recognition site contains ambiguity codes (outside C01's quantifier,
    inside what the library accepts as a cutter): LpnPI CCDG(10/14), SgrTI CCDS(10/14).  (AspBHI YSCNS and MspJI CNNR are
    left out: their sites occur every few letters, a plasmid with exactly two of them is a curiosity.)"""
    loader.load()
    from Bio.Restriction import LpnPI, SgrTI
    return [(classes.enz_spec(e), gen.geometry_of(e)) for e in (LpnPI, SgrTI)]


def amb_members(rng, per):
    """(class spec, record, marks, kind) over the ambiguous-site enzymes: members of the generic and of user part classes,
    and look-alikes whose downstream 'site' is spelled from the un-complemented letter class (not a site of the enzyme)"""
    out = []
    for espec, G in amb_geometries():
        for role in ("module", "vector"):
            for _ in range(per):
                su, sd = rnd_signature(G.ovh, rng), rnd_signature(G.ovh, rng)
                up, down = sig_instance(su, rng), sig_instance(sd, rng)
                s = None
                for _try in range(20):
                    s = G.module(up, gen.rnd(rng.randint(2, 7), rng, "AT"), down, gen.rnd(rng.randint(0, 5), rng, "AT"), rng) if role == "module" \
                        else G.vector(down, up, gen.rnd(rng.randint(0, 4), rng, "AT"), gen.rnd(rng.randint(2, 6), rng, "AT"), rng)
                    if s:
                        break
                if not s:
                    continue
                for cspec in ({"generic": role, "enz": espec}, {"part": role, "enz": espec, "sig": [su, sd]}):
                    out.append((cspec, s, list(range(0, len(G.site) + G.off + G.ovh + 2)), "member"))
                # look-alike: the reverse site replaced by the reversed-but-not-complemented spelling of the ambiguous letters
                fwd = G.inst(rng)
                true_rc = dna.rc(G.site)
                rev = G.site[::-1]
                wrong = "".join(rng.choice(sorted(set(gen.IUPAC[rev[j]]) - set(gen.IUPAC[true_rc[j]])))
                                if (rev[j] not in "ACGT" and set(gen.IUPAC[rev[j]]) - set(gen.IUPAC[true_rc[j]])) else rng.choice(gen.IUPAC[true_rc[j]])
                                for j in range(len(G.site)))
                if "?" not in wrong and gen.count_sites(wrong, G.site) == (0, 0):
                    x, y = gen.rnd(G.off, rng, "AT"), gen.rnd(G.off, rng, "AT")
                    t, b = gen.rnd(4, rng, "AT"), gen.rnd(3, rng, "AT")
                    la = fwd + x + up + t + down + y + wrong + b if role == "module" else down + y + wrong + t + fwd + x + up + b
                    for cspec in ({"generic": role, "enz": espec}, {"part": role, "enz": espec, "sig": [su, sd]}):
                        out.append((cspec, la, [0], "lookalike"))
    return out


def rnd_signature(k, rng):
    mode = rng.random()
    if mode < 0.15:
        return "N" * k
    alpha = "ACGT" if mode < 0.55 else "ACGTNRYSWKMBDHV"
    sig = "".join(rng.choice(alpha) for _ in range(k))
    if rng.random() < 0.25:       # nucleotide letters of a signature may be written in lower case
        sig = "".join(c.lower() if c in "ACGT" and rng.random() < 0.6 else c for c in sig)
    return sig


def sig_instance(sig, rng):
    return "".join(rng.choice(gen.IUPAC[c.upper()]) for c in sig)


def generic_members(rng, per, roles=("module", "vector"), mini=True):
    """(class spec, member sequence, marks) for generic classes over every geometry"""
    out = []
    for espec, G in geometries(mini):
        for role in roles:
            cspec = {"generic": role, "enz": espec}
            for _ in range(per):
                ov = G.overhangs(2, rng)
                if ov is None:
                    continue
                if role == "module":
                    t = gen.rnd(rng.randint(2, 10), rng)
                    s = G.module(ov[0], t, ov[1], gen.rnd(rng.randint(0, 9), rng), rng)
                    span = len(G.site) + G.off + G.ovh + len(t) + G.ovh + G.off + len(G.site)
                else:
                    p = gen.rnd(rng.randint(0, 8), rng)
                    s = G.vector(ov[0], ov[1], p, gen.rnd(rng.randint(2, 9), rng), rng)
                    span = G.ovh + G.off + len(G.site) + len(p) + len(G.site) + G.off + G.ovh
                if s is None:
                    continue
                flank = len(G.site) + G.off + G.ovh
                marks = list(range(0, flank + 2)) + list(range(span - flank - 1, span + 1))
                out.append((cspec, s, marks))
    return out


def part_members(rng, per, mini=True):
    """user-defined signature-typed part classes over every geometry with one member each"""
    out = []
    for espec, G in geometries(mini):
        for role in ("module", "vector"):
            for _ in range(per):
                su, sd = rnd_signature(G.ovh, rng), rnd_signature(G.ovh, rng)
                up, down = sig_instance(su, rng), sig_instance(sd, rng)
                cspec = {"part": role, "enz": espec, "sig": [su, sd]}
                if role == "module":
                    s = G.module(up, gen.rnd(rng.randint(2, 9), rng), down, gen.rnd(rng.randint(0, 8), rng), rng)
                else:
                    s = G.vector(down, up, gen.rnd(rng.randint(0, 7), rng), gen.rnd(rng.randint(2, 8), rng), rng)
                if s is not None:
                    out.append((cspec, s, list(range(0, len(G.site) + G.off + G.ovh + 2))))
    return out


def kit_members(rng, per):
    out = []
    for spec, cls in classes.kit_classes():
        st = cls.structure()
        for i in range(per):
            s = gen.instantiate(st, rng, runlen=None if i else rng.randint(0, 2)) + gen.rnd(rng.randint(0, 12), rng)
            core = len(s)
            out.append((spec, s, list(range(0, 14)) + list(range(max(0, core - 26), core))))
    return out


def registry_members(rng, count):
    """valid registry plasmids (registry, id, seq, class spec)"""
    loader.load()
    pls = registries.plasmids()
    kit_of = {}
    for spec, cls in classes.kit_classes():
        kit_of[cls] = spec
    pick = rng.sample(pls, min(count, len(pls))) if count else pls
    return [(reg, key, seq, kit_of[c]) for reg, key, seq, c in pick if c in kit_of]


def with_extra_site(s, site, rng):
    """a structure instance with one more recognition site of the class's own enzyme (either strand, anywhere):
    the 'illegal site' branch of the validation"""
    extra = rng.choice([site, dna.rc(site)])
    if rng.random() < 0.3:
        extra = "".join(c.lower() if rng.random() < 0.5 else c for c in extra)
    pos = rng.randrange(len(s) + 1)
    return s[:pos] + extra + s[pos:]


def characterize_twins(rng, q, by):
    """Characterize recipes on the kit part families (and on concrete kit types specialised by a user) for one plasmid and
    its twin: another letter case (by='case') or another origin (by='rot', the origin placed on / next to the overhangs)"""
    import importlib
    out = []
    loader.load()
    from moclo.core import AbstractPart
    for kit in loader.KITS:
        mod = importlib.import_module("moclo.kits." + kit)
        fams = [getattr(mod, nm) for nm in sorted(dir(mod))]
        fams = [c for c in fams if isinstance(c, type) and issubclass(c, AbstractPart) and c.__module__ == mod.__name__
                and c.signature is NotImplemented and c.__subclasses__()]
        for base in fams:
            subs = [c for c in base.__subclasses__() if classes.signature_typed(c)]
            for _ in range(2 if q else 10):
                c = rng.choice(subs)
                G = gen.geometry_of(c.cutter)
                up, down = sig_instance(c.signature[0], rng), sig_instance(c.signature[1], rng)
                # (short plasmids: a four-letter overhang then occurs only once in the whole circle)
                s = G.module(up, gen.rnd(rng.randint(2, 6), rng), down, gen.rnd(rng.randint(0, 5), rng), rng) if classes.role_of(c) == "module" \
                    else G.vector(down, up, gen.rnd(rng.randint(0, 4), rng), gen.rnd(rng.randint(2, 6), rng), rng)
                if not s:
                    continue
                n = len(s)
                if by == "case":
                    tw = {"by": "case", "mask": rng.choice(["1", "01", "".join(rng.choice("01") for _ in range(n)), "0001"])}
                    seq = gen.rotate(s, rng.randrange(n))
                else:
                    hits = [i for i in range(n) if (s + s)[i:i + G.ovh] in (up, down)]
                    tw = {"by": "rot", "k": (n - rng.choice(hits) - rng.randint(0, G.ovh)) % n if hits and rng.random() < 0.8 else rng.randrange(n)}
                    seq = s
                out.append({"fn": "characterize", "base": {"kit": kit, "name": base.__name__}, "seq": seq, "twin": tw})
    return out


def typing_sig(clause, ev, trace):
    if ev["ev"] == "Characterize":
        return "%s|%s|%s" % (clause, "kit" if not ev["base"].startswith("UserPart") else "user", ev.get("twin", {}).get("by", "none"))
    c = ev["cls"]
    kind = "generic" if c["generic"] else ("part" if c["sig"] else c["name"])
    return "%s|%s|%s|%s|%s" % (clause, c["role"], kind, ev["twin"]["by"], ev["ev"])


def typing_describe(clause, ev, trace):
    if ev["ev"] == "Characterize":
        tw = ev.get("twin", {"by": "none"})
        return "%s: %s.characterize(%s) -> %s among candidates %s%s" % (
            clause, ev["base"], dna.dec(ev["seq"]), ev["res"], [c["name"] for c in ev["cands"]],
            "" if tw["by"] == "none" else "; twin by %s -> %s" % (tw["by"], tw["res"]))

    def show(r):
        if not r:
            return None
        return {"valid": r["valid"], "exc": r["exc"], "up": dna.dec(r["up"]), "down": dna.dec(r["down"]),
                "target": dna.dec(r["tgt"]), "placeholder": dna.dec(r["ph"]), "query_exceptions": r["qexc"]}
    s = "%s: class %s (%s, cutter %s/%d/%d) on %s -> %s" % (
        clause, ev["cls"]["name"], ev["cls"]["role"], dna.dec(ev["cls"]["enz"]["site"]), ev["cls"]["enz"]["off"],
        ev["cls"]["enz"]["ovh"], dna.dec(ev["seq"]), show(ev["res"]))
    if ev["twin"]["by"] != "none":
        s += "; twin by %s k=%s -> %s" % (ev["twin"]["by"], ev["twin"]["k"], show(ev["twin"]["res"]))
    if ev.get("gen", {}).get("has"):
        s += "; signature-free class -> %s" % show(ev["gen"]["res"])
    return s


def mc_structure(run, prop, geoms_quick=(1,), geoms_thorough=(1, 2, 3, 4, 5), thorough_scale=2):
    """TLC on the small worlds of MC_Structure with the invariants of one property."""
    if run.quick:
        for g in geoms_quick:
            run.model_check("MC_Structure", "MC_Structure_%s_g%d_s1.cfg" % (prop, g))
    else:
        for g in geoms_thorough:
            sc = thorough_scale if g in (1, 2, 3) else 1
            run.model_check("MC_Structure", "MC_Structure_%s_g%d_s%d.cfg" % (prop, g, sc), timeout=7200)
