"""C17 — validation is total and failures are always reported as MoClo errors."""
from .. import classes, gen, loader
from ..core import Run
from ..typing_drv import exec_typing
from . import typing_common as tc

ALPHA = "ACGTRYSWKMBDHVN"


def fuzz_string(rng):
    n = rng.choice([1, 2, 3, 5, 8, 13, 21, 34, 55, 80])
    mode = rng.random()
    alpha = "ACGT" if mode < 0.4 else ALPHA
    s = gen.rnd(n, rng, alpha)
    if rng.random() < 0.4:
        s = "".join(c.lower() if rng.random() < 0.5 else c for c in s)
    return s


def corrupt(s, rng):
    i = rng.randrange(len(s))
    c = rng.choice(ALPHA + ALPHA.lower())
    return s[:i] + c + s[i + 1:]


def run(tier, seed):
    run = Run("C17", tier, seed)
    rng, q = run.rng, run.quick
    loader.load()
    tc.mc_structure(run, "C17", geoms_quick=(1, 2, 3))
    run.model_check("MC_Words", "MC_Words_quick.cfg" if q else "MC_Words_thorough.cfg")
    recipes = []
    specs = [sp for sp, _ in classes.kit_classes()]
    for espec, G in tc.geometries():
        specs.append({"generic": "module", "enz": espec})
        specs.append({"generic": "vector", "enz": espec})
    for cspec in specs:
        cls = classes.build(cspec)
        st = cls.structure()
        for _ in range(4 if q else 30):
            recipes.append({"fn": "typing", "cls": cspec, "seq": fuzz_string(rng)})
        for _ in range(4 if q else 30):
            inst = gen.instantiate(st, rng, lower=rng.choice([0.0, 0.0, 0.5])) + gen.rnd(rng.randint(0, 6), rng)
            recipes.append({"fn": "typing", "cls": cspec, "seq": gen.rotate(corrupt(inst, rng), rng.randrange(len(inst)))})
        # a well-formed instance carrying one more site of the class's own enzyme (rejected after the structure matched)
        site = str(cls.cutter.site)
        for _ in range(3 if q else 12):
            inst = gen.instantiate(st, rng, runlen=rng.randint(3, 8)) + gen.rnd(rng.randint(0, 9), rng)
            s2 = tc.with_extra_site(inst, site, rng)
            recipes.append({"fn": "typing", "cls": cspec, "seq": gen.rotate(s2, rng.randrange(len(s2)))})
        # records shorter than the structure, and the structure without its run
        inst = gen.instantiate(st, rng, runlen=0)
        cut = rng.randrange(1, len(inst))
        recipes.append({"fn": "typing", "cls": cspec, "seq": inst[:cut]})
        recipes.append({"fn": "typing", "cls": cspec, "seq": inst})
        # growth: the same instance declared linear, whole and with the structure running through the origin
        full = gen.instantiate(st, rng, runlen=3) + gen.rnd(4, rng)
        recipes.append({"fn": "typing", "cls": cspec, "seq": full, "linear": True})
        recipes.append({"fn": "typing", "cls": cspec, "seq": gen.rotate(full, 5), "linear": True})
    traces = [exec_typing(r) for r in recipes]
    for r, t in zip(recipes, traces):
        run.distinct.add((t[0]["cls"]["name"], r["seq"]))
    run.extra["accepted"] = sum(1 for t in traces if t[0]["res"]["valid"])
    run.add_sample({"recipe": recipes[0], "event": traces[0][0]})
    run.add_sample({"recipe": recipes[5], "event": traces[5][0]})
    run.validate("typing-fuzz", "Trace_Typing", traces, recipes, sigfn=tc.typing_sig, describe=tc.typing_describe)
    # generic history fuzzer: records edited in place and wrapped again while the earlier wrappers are alive
    from .. import scenario
    sc = scenario.run(rng, 25 if q else 250)
    run.validate("scenario-typing", "Trace_Typing", sc["typing"], None, sigfn=lambda c, ev, tr: c + "|history",
                 describe=lambda c, ev, tr: "%s: after a history on live objects, %s" % (c, tc.typing_describe(c, ev, tr)))
    try:
        from . import asm_common
        asm_common.fuzz_assemblies(run)
    except ImportError:
        run.extra["assembly_part"] = "not built yet"
    return run.finish("TLC: typing is total on every word up to the length bound (MC_Words) and on the small worlds; I->S: every kit class "
                      "and generic class over all geometries queried on random IUPAC strings in both cases (length 1-80), corrupted "
                      "structure instances, truncated instances; is_valid must return a Boolean, invalid records must raise "
                      "InvalidSequence from every query; distinct = distinct (class, record) pairs")


def replay_case(rec):
    from ..core import generic_replay
    return generic_replay(rec, exec_typing)
