"""C08 — annotations are inherited faithfully by the assembled plasmid."""
from .. import loader
from ..asm_drv import exec_assembly
from ..core import Run, generic_replay
from . import asm_common as ac


def run(tier, seed):
    run = Run("C08", tier, seed)
    rng, q = run.rng, run.quick
    loader.load()
    run.model_check("MC_CircularRecord", "MC_CircularRecord_quick.cfg" if q else "MC_CircularRecord_thorough.cfg", timeout=7200)
    run.model_check("MC_AssemblyDNA", "MC_AssemblyDNA_g2_s1.cfg" if q else "MC_AssemblyDNA_g1_s1.cfg", timeout=7200)
    # the implementation's coordinate arithmetic (rotate, slice by extent, shift) transports exactly the features inside the fragment
    for cfg in (["MC_Locations_n4.cfg"] if q else ["MC_Locations_n4.cfg", "MC_Locations_n5.cfg", "MC_Locations_n6.cfg"]):
        run.model_check("MC_Locations", cfg)
    recipes = ac.real_family_cases(rng, 3 if q else 15, 4, annotate=True)
    # the same annotated inputs at another rotation (rotated with the implementation's own operator)
    for r in ac.real_family_cases(rng, 1 if q else 6, 3, annotate=True):
        r["twin"] = {"by": "rot", "args": ac.twin_args(r, "rot", rng)}
        recipes.append(r)
    # the same wrappers used twice with the feature tables of the inputs edited in place in between
    for r in ac.real_family_cases(rng, 1 if q else 4, 3, annotate=True):
        if rng.random() < (0.5 if q else 0.0):
            continue
        r["warmup"] = True
        r["edit_between"] = []
        for x in [r["vector"]] + r["modules"]:
            n = len(x["seq"])
            a = rng.randrange(n)
            r["edit_between"].append([(a, min(n, a + rng.randint(1, 6)), rng.choice([1, -1])) for _ in range(rng.randint(1, 2))])
        recipes.append(r)
    # features that cite references of their records (the /citation qualifier is a qualifier like any other)
    recipes += ac.real_family_cases(rng, 2 if q else 6, 3, annotate=True, refs=True)
    traces = ac.validate(run, "annotated-assemblies", recipes)
    if True:       # real registry plasmids with their own feature tables, inputs rotated by the implementation
        from . import registry_asm
        rr = registry_asm.assembly_recipes(rng, 2 if q else 12)
        for r in rr[:(1 if q else 6)]:
            r["twin"] = {"by": "rot", "args": [rng.randrange(1, 2000)] + [rng.randrange(1, 1500) for _ in r["modules"]]}
        run.extra["registry_assemblies"] = len(rr)
        if rr:
            ac.validate(run, "registry-assemblies", rr)
    # multi-level: the provenance features a product received at one level are ordinary features of the module it is at the next
    try:
        from . import c11
        c11.two_level(run)
    except ImportError:
        pass
    nin = sum(len(x["feats"]) for t in traces for x in [t[0]["vec"]] + t[0]["mods"])
    nout = sum(1 for t in traces for f in t[0]["out"]["feats"] if not (f["type"] == "source" and f["srclabel"]))
    run.extra.update({"input_features": nin, "inherited_features_in_products": nout})
    # generic history fuzzer: live objects used again and again (wrap, query, rotate by 0, edit in place, assemble)
    from .. import scenario
    sc = scenario.run(rng, 20 if q else 200)
    run.validate("scenario-assemblies", "Trace_Assembly", sc["assembly"], None, sigfn=ac.asm_sig, describe=ac.asm_describe)
    return run.finish("TLC: features follow their nucleotides under rotation (record model) and the fragment partition (assembly small "
                      "world); I->S: assemblies over all geometries with random feature tables (simple, two-part, origin-spanning, "
                      "either strand, nested/abutting, touching the fragment boundaries) on inputs at random rotations; TLC derives the "
                      "fragment map from sites and cuts, maps every input feature lying inside its retained fragment and compares the "
                      "bag with the product's non-generated features; distinct = distinct input sets")


def replay_case(rec):
    return generic_replay(rec, exec_assembly)
