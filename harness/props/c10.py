"""C10 — literature citations survive assembly with consistent numbering."""
from .. import loader
from ..asm_drv import exec_assembly
from ..core import Run, generic_replay
from . import asm_common as ac


def run(tier, seed):
    run = Run("C10", tier, seed)
    rng, q = run.rng, run.quick
    loader.load()
    run.model_check("MC_Assembly", "MC_Assembly_faults.cfg", coverage=True)
    recipes = []
    for r in ac.real_family_cases(rng, 3 if q else 15, 3, annotate=True, refs=True):
        r["repeat"] = True
        r["roundtrip"] = True
        if rng.random() < 0.4:
            r["prequery"] = True        # overhangs / targets queried on the same wrappers before assembling
        recipes.append(r)
    # calls that are refused (a duplicate, a module that does not match its class, a missing module): the cited inputs read the
    # same afterwards
    import copy as _copy
    from .. import gen as _gen
    for r in ac.real_family_cases(rng, 1 if q else 4, 3, annotate=True, refs=True):
        for how in ("dup", "bad", "missing"):
            r2 = _copy.deepcopy(r)
            if how == "dup":
                r2["modules"].append(dict(_copy.deepcopy(r2["modules"][-1]), id="dup"))
            elif how == "bad":
                m = r2["modules"][0]
                m["seq"] = _gen.mutate(m["seq"][:10], rng) + m["seq"][10:][::-1]
                m["feats"] = [f for f in m.get("feats", []) if max(p_[1] for p_ in f["parts"]) <= len(m["seq"])]
            elif len(r2["modules"]) > 1:
                r2["modules"].pop(0)
            recipes.append(r2)
    recipes += [dict(r_, repeat=True) for r_ in ac.curated_many_refs(rng, 2 if q else 6)]
    traces = ac.validate(run, "cited-assemblies", recipes)
    run.extra["inputs_with_references"] = sum(1 for t in traces for x in [t[0]["vec"]] + t[0]["mods"] if x["refs"])
    run.extra["cited_input_features"] = sum(1 for t in traces for x in [t[0]["vec"]] + t[0]["mods"] for f in x["feats"] if f["cites"])
    run.extra["cited_product_features"] = sum(1 for t in traces for f in t[0]["out"]["feats"] if f["cites"])
    # generic history fuzzer: live objects used again and again (wrap, query, rotate by 0, edit in place, assemble)
    from .. import scenario
    sc = scenario.run(rng, 20 if q else 200)
    run.validate("scenario-assemblies", "Trace_Assembly", sc["assembly"], None, sigfn=ac.asm_sig, describe=ac.asm_describe)
    return run.finish("TLC: de-/re-referencing steps of the assembly machine restore every input (with faults); I->S: assemblies whose inputs "
                      "carry reference lists of length 0-3 (shared or unique), features citing none / one / two references inside and "
                      "outside the retained fragments; TLC maps the cited features through the fragment map and requires each product "
                      "citation, in [n] form, to denote the reference its source feature denoted, the product reference list to hold "
                      "each cited reference once, the inputs to read the same afterwards, the repeated call to agree; distinct = inputs")


def replay_case(rec):
    return generic_replay(rec, exec_assembly)
