"""C12 — strand symmetry: reverse-complemented inputs give the reverse complement."""
from .. import gen, loader
from ..core import Run
from ..typing_drv import exec_typing
from . import typing_common as tc


def run(tier, seed):
    run = Run("C12", tier, seed)
    rng, q = run.rng, run.quick
    loader.load()
    tc.mc_structure(run, "C12", geoms_quick=(1, 2, 3))
    run.model_check("MC_Structure", "MC_Structure_C12_g6_s1.cfg")       # growth: a recognition site with an ambiguity code (CD, reverse HG)
    recipes = []
    for cspec, s, marks in tc.generic_members(rng, 3 if q else 12):
        n = len(s)
        ks = gen.boundary_rotations(n, rng.sample(marks, min(len(marks), 3 if q else 12)), rng, extra=2, width=0)
        for k in ks:
            recipes.append({"fn": "typing", "cls": cspec, "seq": gen.rotate(s, k), "twin": {"by": "rc"}})
        recipes.append({"fn": "typing", "cls": cspec, "seq": gen.rotate(gen.mutate(s, rng), rng.randrange(n)), "twin": {"by": "rc"}})
        # the other strand as a shallow copy of the typed record with the sequence replaced
        recipes.append({"fn": "typing", "cls": cspec, "seq": gen.rotate(s, rng.randrange(n)), "twin": {"by": "rc", "via": "copy"}})
        # one recognition site spelled in mixed case (GGTctc), the rest of the plasmid uniformly
        from .. import classes as _cl
        site = str(_cl.build(cspec).cutter.site)
        up_ = s.upper()
        hits = [i for i in range(n) if (up_ + up_)[i:i + len(site)] in (site, __import__("harness.dna", fromlist=["x"]).rc(site))]
        if hits:
            h = rng.choice(hits)
            letters = list(s.upper() if rng.random() < 0.5 else s.lower())
            for d in range(len(site)):
                j = (h + d) % n
                letters[j] = letters[j].lower() if rng.random() < 0.5 else letters[j].upper()
            recipes.append({"fn": "typing", "cls": cspec, "seq": gen.rotate("".join(letters), rng.randrange(n)), "twin": {"by": "rc"}})
        # ambiguity codes inside the record (N, R/Y, B/V, ...): whatever the class does with them, it does on both strands
        amb = s
        for _ in range(rng.randint(1, 2)):
            i = rng.randrange(len(amb))
            amb = amb[:i] + rng.choice("NRYSWKMBDHVnbv") + amb[i + 1:]
        recipes.append({"fn": "typing", "cls": cspec, "seq": gen.rotate(amb, rng.randrange(n)), "twin": {"by": "rc"}})
        # a module typed as a vector and vice versa: both must be rejected on both strands
        other = dict(cspec, generic="vector" if cspec["generic"] == "module" else "module")
        recipes.append({"fn": "typing", "cls": other, "seq": gen.rotate(s, rng.randrange(n)), "twin": {"by": "rc"}})
    # growth: cutters whose recognition site contains ambiguity codes (LpnPI CCDG, SgrTI CCDS; the reverse site is CHGG / SHGG)
    for cspec, s, marks, kind in tc.amb_members(rng, 3 if q else 15):
        if "generic" in cspec:
            for k in (0, rng.randrange(len(s))):
                recipes.append({"fn": "typing", "cls": cspec, "seq": gen.rotate(s, k), "twin": {"by": "rc"}})
    # generic-typed plasmids of the registries (classes whose structure is the derived generic one)
    from .. import classes
    n_reg = 0
    for reg, key, seq, cspec in tc.registry_members(rng, 0):
        cls = classes.build(cspec)
        gspec = classes.generic_spec_for(cls)
        if n_reg >= (4 if q else 40):
            break
        if rng.random() < 0.3:
            n_reg += 1
            recipes.append({"fn": "typing", "cls": gspec, "seq": seq, "twin": {"by": "rc"}, "plasmid": key})
    traces = [exec_typing(r) for r in recipes]
    for r, t in zip(recipes, traces):
        if t[0]["res"]["valid"]:
            run.distinct.add((t[0]["cls"]["name"], r["seq"]))
    run.add_sample({"recipe": recipes[0], "event": traces[0][0]})
    run.validate("typing-rc", "Trace_Typing", traces, recipes, sigfn=tc.typing_sig, describe=tc.typing_describe)
    try:
        from . import asm_common
        asm_common.twin_assemblies(run, "rc")
    except ImportError:
        run.extra["assembly_part"] = "not built yet"
    return run.finish("TLC: StrandSym on the small worlds; I->S: (record, reverse complement) pairs for generic module/vector classes over "
                      "all real and miniature geometries at boundary rotations, mutants, wrong-role queries, registry plasmids typed "
                      "generically; precondition 'exactly the two sites' evaluated by the spec; distinct = accepted (class, record)")


def replay_case(rec):
    from ..core import generic_replay
    return generic_replay(rec, exec_typing)
