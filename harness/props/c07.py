"""C07 — assembly is pure: inputs are left untouched, even when it fails."""
from .. import dna, gen, loader
from ..asm_drv import exec_assembly
from ..core import Run, generic_replay
from . import asm_common as ac


def run(tier, seed):
    run = Run("C07", tier, seed)
    rng, q = run.rng, run.quick
    loader.load()
    run.model_check("MC_Assembly", "MC_Assembly_faults.cfg" if q else "MC_Assembly_faults_thorough.cfg", coverage=True, timeout=7200)
    run.model_check("MC_Assembly", "Neg_Assembly.cfg", expect_violation="C07_InputsRestored")
    recipes = []
    base = ac.real_family_cases(rng, 1 if q else 3, 3, annotate=True, refs=True) + ac.real_family_cases(rng, 1 if q else 2, 3)
    # successful calls that only warn: an unused module with citations of its own
    for r in ac.real_family_cases(rng, 1 if q else 3, 2, annotate=True, refs=True, extra_unused=1):
        recipes.append(dict(r, repeat=True))
    for r in base:
        # (a) the plain call, repeated on the same objects
        recipes.append(dict(r, repeat=True))
        recipes.append(dict(r, repeat=True, prequery=True))
        # (b) a crash at every call the assembly makes into the objects it was given
        probe = exec_assembly(dict(r, fault={"at": 10 ** 6, "exc": "RuntimeError"}))[0]
        ncalls = probe["out"]["ncalls"]
        pts = range(1, ncalls + 1) if not q else sorted(set(rng.sample(range(1, ncalls + 1), min(ncalls, 5)) + [ncalls, max(1, ncalls - 1)]))
        for at in pts:
            recipes.append(dict(r, fault={"at": at, "exc": rng.choice(["RuntimeError", "InvalidSequence", "KeyError"])}, repeat=True))
        # (c) failing calls: missing module after j consumed modules, duplicate, invalid vector / module
        n = len(r["modules"])
        for j in range(n):
            mods = [m for i, m in enumerate(r["modules"]) if i != j]
            if mods:
                recipes.append(dict(r, modules=mods, repeat=True))
        recipes.append(dict(r, modules=r["modules"] + [dict(r["modules"][-1], id="dup")], repeat=True))
        bad = dict(r["modules"][0], seq=gen.mutate(r["modules"][0]["seq"][:10], rng) + r["modules"][0]["seq"][10:][::-1])
        recipes.append(dict(r, modules=[bad] + r["modules"][1:], repeat=True))
        recipes.append(dict(r, vector=dict(r["vector"], seq=r["vector"]["seq"][: len(r["vector"]["seq"]) // 2]), repeat=True))
    # (d) the failure comes from the citations themselves: a later input carries a dangling index or a citation that is not in
    #     bracketed-index form (the call raises; the inputs resolved before it must be put back all the same)
    import copy as _copy
    for r in ac.real_family_cases(rng, 1 if q else 3, 3, annotate=True, refs=True, shuffle=False):
        r = _copy.deepcopy(r)
        cited = [x for x in [r["vector"]] + r["modules"] if any(f.get("cites") for f in x.get("feats", []))]
        if len(cited) < 2:
            continue
        victim = cited[-1]
        f = [f for f in victim["feats"] if f.get("cites")][-1]
        how = rng.choice(["dangling", "zero", "round", "empty", "bare", "late"])
        if how == "dangling":
            f["cites"] = list(f["cites"]) + [len(victim.get("refs", [])) + rng.randint(1, 3)]
        elif how == "zero":
            f["cites"] = [len(victim.get("refs", [])) + 5]
        elif how == "late":          # the second citation of a feature whose first one is fine
            f["cites"] = [f["cites"][0], 99]
        else:
            f["cite_fmt"] = {"round": "(%d)", "empty": "[]%.0d", "bare": "%d"}[how]
        recipes.append(dict(r, repeat=True))
    recipes += [dict(r_, repeat=True) for r_ in ac.curated_many_refs(rng, 2 if q else 6)]
    ac.validate(run, "calls-and-faults", recipes)
    run.extra["fault_points"] = sum(1 for r in recipes if r.get("fault"))
    # generic history fuzzer: live objects used again and again (wrap, query, rotate by 0, edit in place, assemble)
    from .. import scenario
    sc = scenario.run(rng, 20 if q else 200)
    run.validate("scenario-assemblies", "Trace_Assembly", sc["assembly"], None, sigfn=ac.asm_sig, describe=ac.asm_describe)
    return run.finish("TLC: InputsRestored at every exit of the step machine with a fault injected at every step (exhaustive at the graph "
                      "level), negative model (no restore on failure) refuted; I->S: assemblies with and without citations, each run "
                      "plain, with an exception (RuntimeError / InvalidSequence / KeyError) injected at every call into the supplied "
                      "objects (instrumented subclasses), with a module missing at every position, a duplicate, an invalid module, an "
                      "invalid vector - deep snapshot of every input before/after, and the same call repeated on the same objects; "
                      "distinct = distinct (inputs, fault point)")


def replay_case(rec):
    return generic_replay(rec, exec_assembly)
