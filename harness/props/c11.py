"""C11 — products of one level are valid modules of the next level."""
import re

from .. import classes, dna, enz as enzmod, gen, loader
from ..asm_drv import build_inputs, call_assemble, exec_assembly, mk_record
from ..core import Run, generic_replay
from ..typing_drv import query
from . import asm_common as ac

# (kit, vector class, module class, next-level class)
TRIPLES = [("cidar", "CIDAREntryVector", "CIDARProduct", "CIDAREntry"),
           ("cidar", "CIDARCassetteVector", "CIDAREntry", "CIDARCassette"),
           ("cidar", "CIDARDeviceVector", "CIDARCassette", "CIDARDevice"),
           ("ecoflex", "EcoFlexCassetteVector", "EcoFlexEntry", "EcoFlexCassette"),
           ("ecoflex", "EcoFlexDeviceVector", "EcoFlexCassette", "EcoFlexDevice"),
           ("moclo", "MoCloEntryVector", "MoCloProduct", "MoCloEntry"),
           ("moclo", "MoCloCassetteVector", "MoCloEntry", "MoCloCassette"),
           ("ytk", "YTKEntryVector", "YTKProduct", "YTKEntry")]
_SPLIT = re.compile(r"^(.*?)\((.*?)\)\((.*?)\)\((.*?)\)(.*)$")


def inst_piece(piece, rng, alphabet=None):
    out = []
    i = 0
    while i < len(piece):
        c = piece[i]
        if c.upper() not in gen.IUPAC:
            i += 1
            continue
        nxt = piece[i + 1:i + 2]
        choices = gen.IUPAC[c.upper()] if alphabet is None or c != "N" else alphabet
        if nxt in ("*", "+"):
            out.append(gen.rnd(rng.randint(1 if nxt == "+" else 0, 8), rng, choices))
            i += 3 if piece[i + 2:i + 3] == "?" else 2
        else:
            out.append(rng.choice(choices))
            i += 1
    return "".join(out)


def instantiate_with(structure, g1, g3, rng, sites, want, tries=200):
    """instance of a 3-group structure with chosen overhang groups, site counts as wanted"""
    pre, p1, p2, p3, post = _SPLIT.match(structure).groups()
    for t in range(tries):
        alpha = None if t < 20 else "AT"
        s = inst_piece(pre, rng, alpha) + g1 + inst_piece(p2, rng, alpha) + g3 + inst_piece(post, rng, alpha)
        s += gen.rnd(rng.randint(2, 10), rng, alpha or "ACGT")
        if all(gen.count_sites(s, site) == w for site, w in zip(sites, want)):
            return s
    return None


def designed_sites(structure, site):
    """how many sites of an enzyme the structure literal itself spells (N -> A, empty runs)"""
    probe = re.sub(r"[()]", "", re.sub(r"N\*\??", "", structure)).replace("N", "A")
    f = sum(1 for i in range(len(probe)) if probe.startswith(site, i))
    v = sum(1 for i in range(len(probe)) if probe.startswith(dna.rc(site), i))
    return (f, v)


def fit(pattern, rng):
    return "".join(rng.choice(gen.IUPAC[c]) for c in pattern)


def level_recipe(triple, rng, nmods=None, module_override=None, ovh_override=None, named_after_insert=False):
    kit, vname, mname, nname = triple
    vspec, mspec, nspec = ({"kit": kit, "name": n} for n in (vname, mname, nname))
    vcls, mcls, ncls = classes.build(vspec), classes.build(mspec), classes.build(nspec)
    this, nxt = vcls.cutter, ncls.cutter
    G = gen.geometry_of(this)
    tsite, nsite = this.site, nxt.site
    vpre, v1, v2, v3, vpost = _SPLIT.match(vcls.structure()).groups()
    mpre, m1, m2, m3, mpost = _SPLIT.match(mcls.structure()).groups()
    n = 1 if (set(m1) | set(m3)) - set("N") else (nmods or rng.randint(1, 3))
    for attempt in range(60):
        if ovh_override:
            chain = list(ovh_override)
        elif n == 1 and (set(m1) | set(m3)) - set("N"):
            chain = [fit(m1, rng), fit(m3, rng)]
        elif n == 1 and rng.random() < 0.3:
            o = G.overhangs(1, rng)
            chain = [o[0], dna.rc(o[0])]          # the vector's two overhangs are reverse complements of each other
        else:
            chain = G.overhangs(n + 1, rng, "ACGT" if attempt < 20 else "AT")
        if chain is not None and n >= 2 and not ovh_override and rng.random() < 0.3:
            chain = list(chain)
            chain[-1] = dna.rc(chain[rng.randrange(0, n - 1)])
        if chain is None or len(set(chain)) != len(chain):
            continue
        if any(o == dna.rc(o) for o in chain[:-1]) or any(a == dna.rc(b) for a in chain[:-1] for b in chain[:-1]):
            continue
        vec = instantiate_with(vcls.structure(), chain[0], chain[-1], rng, (tsite, nsite),
                               ((1, 1), designed_sites(vcls.structure(), nsite)))
        if vec is None:
            continue
        mods = []
        for j in range(len(chain) - 1):
            if module_override and j == 0:
                mods.append(module_override["seq"] if isinstance(module_override, dict) else module_override)
                continue
            # (YTKProduct carries the next-level site halves itself, split over its overhang and body groups)
            probe = mcls.structure().replace("(", "").replace(")", "")
            m = instantiate_with(mcls.structure(), chain[j], chain[j + 1], rng, (tsite, nsite), ((1, 1), designed_sites(probe, nsite)))
            mods.append(m)
        if any(m is None for m in mods):
            continue
        # a destination vector whose backbone (the part the kit's hand-written structure does not cover) was never domesticated:
        # one more site of the vector's own enzyme there, either strand
        vloose = False
        own_structure = next((k_ for k_ in vcls.__mro__ if "structure" in k_.__dict__), None)
        anchored = own_structure is not None and own_structure.__module__.startswith("moclo.kits")     # hand-written, anchored on the next-level sites
        if anchored and rng.random() < 0.25 and not module_override:
            vec = vec + gen.rnd(rng.randint(2, 5), rng, "AT") + rng.choice([tsite, dna.rc(tsite)]) + gen.rnd(rng.randint(2, 5), rng, "AT")
            vloose = True
        # curated inserts: a reference list and a handful of short cited features (some of them fall inside the insert, so the
        # product carries citations and a reference list of its own into the next level)
        cited = rng.random() < 0.4
        # the inserts of a level are often products of the level below, which all carry the default id unless one was asked for
        same_id = rng.choice(["assembly", "<unknown id>"]) if (len(mods) >= 2 and rng.random() < 0.35) else None
        return {"fn": "level", "vloose": vloose, "triple": list(triple), "enz": classes.enz_spec(this), "nenz": classes.enz_spec(nxt),
                "vcls": vspec, "mcls": [mspec] * len(mods), "ncls": nspec,
                "vector": {"id": "vec", "seq": gen.rotate(vec, rng.randrange(len(vec)))},
                "modules": [dict(module_override) if (isinstance(module_override, dict) and i == 0) else
                            cite_some({"id": ("ins%d" % (i + 1)) if not same_id else same_id, "seq": gen.rotate(m, rng.randrange(len(m)))}, rng, cited)
                            for i, m in enumerate(mods)],
                # (a product is often given the name of the part it was built around)
                "id": ("lvl%d" % rng.randrange(100000)) if (rng.random() < 0.75 and not named_after_insert) else ("ins1" if not same_id else same_id), "name": "lvl"}
    return None


def cite_some(spec, rng, on):
    if on:
        n = len(spec["seq"])
        spec["refs"] = ["paper-%s-1" % spec["id"], "paper-%s-2" % spec["id"]]
        spec["feats"] = []
        for j in range(8):
            a = rng.randrange(n - 2)
            spec["feats"].append({"type": "misc_feature", "strand": 1, "parts": [[a, a + rng.randint(1, 2)]],
                                  "quals": {"label": ["c%d" % j]}, "cites": [rng.randint(1, 2)]})
    return spec


def feats_from_out(out):
    """feature specs (for mk_record) of a product, so that it can be re-used as an annotated module"""
    import json
    n = len(out["seq"])
    specs = []
    for f in out["feats"]:
        quals = json.loads(f["lab"].split("|", 1)[1])
        parts = []
        strand = 1
        for p in f["parts"]:
            idx = p["idx"][::-1] if p["st"] == -1 else p["idx"]
            strand = p["st"] if p["st"] in (1, -1) else None
            a = idx[0]
            L = len(idx)
            if a + L <= n:
                parts.append([a, a + L])
            else:
                parts.append([a, n])
                parts.append([0, a + L - n])
        specs.append({"type": f["type"], "strand": strand, "parts": parts, "quals": quals})
    return specs


def exec_level(r):
    """assemble at this level, type the product with the next-level class, assemble it again at the next level"""
    loader.load()
    # the level classes accept exactly the decomposable plasmids generated here, so every assembly clause applies
    evs = exec_assembly(dict(r, fn="assemble", assume_generic=True))
    asm = evs[0]
    ev = {"ev": "NextLevel", "enz": asm["enz"], "vec": asm["vec"], "mods": asm["mods"], "out": asm["out"], "vloose": bool(r.get("vloose")),
          "nenz": enzmod.enz_json(classes.cutter_of(r["nenz"])),
          "next": {"cls": {}, "res": {"valid": False, "exc": "", "up": [], "down": [], "tgt": [], "ph": [], "qexc": [], "qinv": True}},
          "second": {"has": False, "out": {}}}
    if asm["out"]["kind"] == "product":
        ncls = classes.build(r["ncls"])
        # rebuild the product object to hand it on (same inputs, same call)
        vcls, mclss, vrec, mrecs = build_inputs(dict(r, fn="assemble"))
        out = call_assemble(vcls, mclss, vrec, mrecs, r.get("id"), r.get("name"))
        prod = out.pop("_product")
        k = r.get("rotate_product", 0)
        if k:
            prod = prod >> k
        res = query(ncls, prod)
        ev["next"] = {"cls": classes.describe(ncls), "res": res}
        if res["valid"] and not any(res["qexc"]):
            Gn = gen.geometry_of(ncls.cutter)
            import random
            rng = random.Random(len(prod.seq))
            v2 = Gn.vector(dna.dec(res["up"]).upper(), dna.dec(res["down"]).upper(), gen.rnd(3, rng, Gn.safe), gen.rnd(5, rng, Gn.safe), rng)
            if v2 and dna.dec(res["up"]).upper() != dna.dec(res["down"]).upper():
                gv = classes.build({"generic": "vector", "enz": r["nenz"]})
                v2rec = mk_record({"id": "v2", "seq": v2})
                from ..asm_drv import rec_proj, snapshot
                pin = [rec_proj(v2rec), rec_proj(prod)]
                before = [snapshot(v2rec), snapshot(prod)]
                out2 = call_assemble(gv, [ncls], v2rec, [prod], "second", "second")
                out2.pop("_product", None)
                ev["second"] = {"has": True, "out": out2}
                # the same call as a full assembly event: the product object itself (not a copy rebuilt from its description) is the
                # module, so its provenance features are what the library put there
                s2, o2, k2 = enzmod.geometry(ncls.cutter)
                extra = {"ev": "Assemble", "enz": {"site": dna.enc(s2), "off": o2, "ovh": k2}, "vrole": "vector", "generic": True,
                         "vec": pin[0], "mods": pin[1:], "args": {"id": "second", "name": "second"}, "out": out2, "fault": {"at": 0, "exc": ""},
                         "before": before, "after": [snapshot(v2rec), snapshot(prod)],
                         "rep": {"has": False, "out": {}, "after": []}, "twin": {"by": "none", "out": {}},
                         "origins": [{"id": x["id"], "seq": x["seq"]} for x in [asm["vec"]] + asm["mods"]]}
                return evs[:1] + [ev, extra]
    return evs[:1] + [ev]


def two_level(run, provenance=False):
    """entries -> cassettes -> device: the product of one triple is the module of the next triple of the kit"""
    rng, q = run.rng, run.quick
    chains = [[TRIPLES[0], TRIPLES[1], TRIPLES[2]], [TRIPLES[3], TRIPLES[4]], [TRIPLES[5], TRIPLES[6]]]
    traces, recipes = [], []
    for chain in chains:
        for _ in range(1 if q else 5):
            module = None
            ovh = None
            origins = []
            for t in chain:
                r = level_recipe(t, rng, nmods=1, module_override=module, ovh_override=ovh, named_after_insert=(chain is chains[0] and module is None))
                if r is None:
                    break
                tr = exec_level(r)
                if origins:          # the plasmids of the earlier levels, which the inner provenance features name
                    tr[0]["origins"] = list(origins)
                origins.extend({"id": x["id"], "seq": x["seq"]} for x in [tr[0]["vec"]] + tr[0]["mods"])
                traces.append(tr)
                recipes.append(r)
                nx = tr[1]["next"]["res"]
                if tr[0]["out"]["kind"] != "product" or not nx["valid"]:
                    break
                # the product, with its features (inner provenance included), becomes the module of the next level
                module = {"id": tr[0]["out"]["id"], "seq": dna.dec(tr[0]["out"]["seq"]), "feats": feats_from_out(tr[0]["out"])}
                if rng.random() < 0.7:      # the plasmid is stored with some other origin before it is used again
                    module["rot"] = rng.randrange(1, len(module["seq"]))
                ovh = [dna.dec(nx["up"]).upper(), dna.dec(nx["down"]).upper()]
    run.validate("two-level", "Trace_Assembly", traces, recipes, sigfn=sig, describe=describe)
    run.extra["two_level_steps"] = len(traces)


def sig(clause, ev, trace):
    if ev["ev"] == "NextLevel":
        return "%s|%s" % (clause, ev["next"]["cls"].get("name", "?"))
    return ac.asm_sig(clause, ev, trace)


def describe(clause, ev, trace):
    if ev["ev"] == "NextLevel":
        r = ev["next"]["res"]
        return "%s: vector %s + inserts %s -> product %s; next-level class %s says valid=%s up=%s down=%s target=%s; second assembly: %s" % (
            clause, dna.dec(ev["vec"]["seq"]), [dna.dec(m["seq"]) for m in ev["mods"]], dna.dec(ev["out"]["seq"]),
            ev["next"]["cls"].get("name"), r["valid"], dna.dec(r["up"]), dna.dec(r["down"]), dna.dec(r["tgt"]),
            ev["second"]["out"].get("kind") if ev["second"]["has"] else "-")
    return ac.asm_describe(clause, ev, trace)


def run(tier, seed):
    run = Run("C11", tier, seed)
    rng, q = run.rng, run.quick
    loader.load()
    run.model_check("MC_Levels", "MC_Levels_quick.cfg" if q else "MC_Levels_thorough.cfg", timeout=7200)
    recipes = []
    for t in TRIPLES:
        for _ in range(4 if q else 30):
            r = level_recipe(t, rng)
            if r:
                if rng.random() < 0.5:
                    r["rotate_product"] = rng.randrange(1, 40)
                recipes.append(r)
    traces = [exec_level(r) for r in recipes]
    for r, t in zip(recipes, traces):
        run.distinct.add((r["triple"][1], r["vector"]["seq"], tuple(m["seq"] for m in r["modules"])))
    run.extra["per_triple"] = {t[1]: sum(1 for r in recipes if r["triple"][1] == t[1]) for t in TRIPLES}
    run.extra["accepted_by_next_level"] = sum(1 for t in traces if t[1]["next"]["res"]["valid"])
    run.extra["second_level_assemblies"] = sum(1 for t in traces if t[1]["second"]["has"])
    run.add_sample({"recipe": recipes[0], "next": traces[0][1]["next"]["res"]})
    run.validate("levels", "Trace_Assembly", traces, recipes, sigfn=sig, describe=describe)
    two_level(run)
    return run.finish("TLC: ProductIsNextModule on a small world with two miniature enzymes and the kit vector shape, all rotations; I->S: "
                      "the eight (vector, module, next-level) triples of the kits: vectors instantiated from the hand-written structures "
                      "with chosen overhangs, chains of 1-3 inserts free of next-level sites, product typed by the next-level class (at "
                      "random rotations), then assembled again into a next-level vector; two-level chains entries->cassettes->devices; "
                      "TLC decomposes the product by the next-level enzyme from sites and cuts; distinct = distinct input sets")


def replay_case(rec):
    return generic_replay(rec, lambda r: exec_level(r) if r.get("fn") == "level" else exec_assembly(r))
