"""C02 — a plasmid has no origin: typing (and assembly) are rotation invariant."""
from .. import gen, loader
from ..core import Run
from ..typing_drv import exec_typing
from . import typing_common as tc


def run(tier, seed):
    run = Run("C02", tier, seed)
    rng, q = run.rng, run.quick
    loader.load()
    tc.mc_structure(run, "C02", geoms_quick=(1, 2))
    if not q:
        run.model_check("MC_Structure", "MC_Structure_C02_g6_s1.cfg", timeout=3600)   # growth: a recognition site with an ambiguity code
    recipes = []
    members = tc.generic_members(rng, 1 if q else 4) + tc.part_members(rng, 1 if q else 3, mini=not q) + tc.kit_members(rng, 1 if q else 4)
    for cspec, s, marks in members:
        n = len(s)
        ks = list(range(n)) if (not q and n <= 90) else gen.boundary_rotations(n, rng.sample(marks, min(len(marks), 6 if q else 30)), rng, extra=3, width=0)
        if q:
            ks = rng.sample(ks, min(len(ks), 6))
        for k in ks:
            recipes.append({"fn": "typing", "cls": cspec, "seq": s, "twin": {"by": "rot", "k": k, "via": "api"}})
        # the same plasmid in a plain SeqRecord (circular by annotation, or by default): origin at the marked places
        for k in rng.sample(ks, min(len(ks), 2 if q else 8)):
            recipes.append({"fn": "typing", "cls": cspec, "seq": s, "plain": rng.choice(["circular", "upper", "absent"]), "twin": {"by": "rot", "k": k}})
        # a third site of the enzyme in the BACKBONE of a module plasmid (behind the structure, outside the matched stretch): legal
        # for a signature-typed class as long as it does not form a second structure; the origin far from the structure
        cls0 = __import__("harness.classes", fromlist=["x"]).build(cspec)
        if __import__("harness.classes", fromlist=["x"]).role_of(cls0) == "module":
            site0 = str(cls0.cutter.site)
            gap3 = rng.randint(1, 6)          # 1: the extra site's cut falls exactly on the structure's first overhang
            s3 = s + gen.rnd(rng.randint(2, 5), rng) + rng.choice([site0, __import__("harness.dna", fromlist=["x"]).rc(site0)]) + gen.rnd(gap3, rng)
            n3 = len(s3)
            # ... and the origin INSIDE that extra site or between it and the structure (outside the class's own structure)
            near = [d for d in range(1, gap3 + len(site0) + 1)] + [n3 - d for d in range(1, gap3 + len(site0) + 1)]
            for k in rng.sample(range(n3), 3 if q else 10) + rng.sample(near, 3 if q else len(near)):
                recipes.append({"fn": "typing", "cls": cspec, "seq": s3, "twin": {"by": "rot", "k": k, "via": "api"}})
            # ... and the extra site placed so that its cut falls EXACTLY on the structure's outer overhang: directly in front of
            # the structure (site, then `off` letters) or directly behind it (`off` letters, then the site on the other strand)
            from ..enz import geometry as _geom
            _site, off0, _ovh = _geom(cls0.cutter)
            core0 = gen.instantiate(cls0.structure(), rng)
            rc0 = __import__("harness.dna", fromlist=["x"]).rc(site0)
            for s4 in (core0 + gen.rnd(rng.randint(3, 8), rng) + site0 + gen.rnd(off0, rng),
                       core0 + gen.rnd(off0, rng) + rc0 + gen.rnd(rng.randint(3, 8), rng)):
                n4 = len(s4)
                for k in rng.sample(range(1, n4), 2 if q else 8) + [rng.choice([1, 2, 3, n4 - 1, n4 - 2, n4 - 3])]:
                    recipes.append({"fn": "typing", "cls": cspec, "seq": s4, "twin": {"by": "rot", "k": k, "via": "api"}})
        # records with several matches / mutated ones are judged too (precondition evaluated by the spec)
        s2 = gen.mutate(s, rng)
        recipes.append({"fn": "typing", "cls": cspec, "seq": s2, "twin": {"by": "rot", "k": rng.randrange(1, n), "via": "api"}})
    # registry plasmids: origin moved to the group boundaries of the structure and to random places
    for reg, key, seq, cspec in tc.registry_members(rng, 4 if q else 60):
        n = len(seq)
        for k in [rng.randrange(n) for _ in range(2 if q else 6)] + [1, n - 1]:
            recipes.append({"fn": "typing", "cls": cspec, "seq": seq, "twin": {"by": "rot", "k": k, "via": "api"}, "plasmid": key})
    # typing through characterize (the way registries type the files of a directory): same type at every origin
    recipes += tc.characterize_twins(rng, q, "rot")
    from ..typing_drv import exec_characterize
    traces = [exec_characterize(r) if r["fn"] == "characterize" else exec_typing(r) for r in recipes]
    for r, t in zip(recipes, traces):
        if t[0]["res"]["valid"]:
            run.distinct.add((t[0].get("cls", {}).get("name", t[0].get("base")), r["seq"], r["twin"]["k"]))
    run.add_sample({"recipe": recipes[0], "event": traces[0][0]})
    run.validate("typing-rot", "Trace_Typing", traces, recipes, sigfn=tc.typing_sig, describe=tc.typing_describe)
    try:
        from . import asm_common
        asm_common.twin_assemblies(run, "rot")
    except ImportError:
        run.extra["assembly_part"] = "not built yet"
    return run.finish("TLC: RotInv on every plasmid and rotation of the small worlds; I->S: (record, record >> k) pairs through the real "
                      "API for generic, user part and kit classes (origin placed inside site, spacer, overhangs, target) and registry "
                      "plasmids; the spec evaluates the unique-match precondition; distinct_nontrivial = distinct accepted (class, record, k)")


def replay_case(rec):
    from ..core import generic_replay
    from ..typing_drv import exec_characterize
    return generic_replay(rec, lambda r: exec_characterize(r) if r.get("fn") == "characterize" else exec_typing(r))
