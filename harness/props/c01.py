"""C01 — assembly yields exactly the Golden Gate ligation product."""
from .. import enz, gen, loader
from ..asm_drv import exec_assembly
from ..core import Run, generic_replay
from . import asm_common as ac
from . import typing_common as tc


def run(tier, seed):
    run = Run("C01", tier, seed)
    rng, q = run.rng, run.quick
    loader.load()
    for cfg in (["MC_AssemblyDNA_g1_s0.cfg", "MC_AssemblyDNA_g2_s1.cfg", "MC_AssemblyDNA_g3_s1.cfg"] if q else
                ["MC_AssemblyDNA_g1_s1.cfg", "MC_AssemblyDNA_g2_s2.cfg", "MC_AssemblyDNA_g3_s2.cfg"]):
        run.model_check("MC_AssemblyDNA", cfg, timeout=7200)
    recipes = []
    # every distinct real geometry + the miniature ones; chain lengths 1..5 (bounded by the overhang alphabet)
    for espec, G in tc.geometries():
        for nm in range(1, 6):
            if nm + 1 > G.capacity():
                break
            for _ in range(1 if q else 6):
                r = ac.case_recipe(G, espec, rng, nm)
                if r:
                    recipes.append(r)
        for _ in range(1 if q else 4):       # the chain closes on the reverse complement of one of its own junctions
            r = ac.case_recipe(G, espec, rng, rng.randint(1, max(1, min(3, G.capacity() - 1))), rc_close=True)
            if r:
                recipes.append(r)
        # all rotations of a small case whose origin falls anywhere (exhaustive over the vector's and one module's rotations)
        base = G.case(rng, 2 if G.capacity() >= 3 else 1, tmax=4, bmax=4, pmax=2)
        if base:
            plasmids = [base["vector"]] + base["modules"]
            for which in range(len(plasmids)):
                n = len(plasmids[which])
                if q:     # origin at (and one before / after) every structural boundary of the plasmid
                    ks = gen.boundary_rotations(n, base["marks"][which], rng, extra=1, width=1)
                    ks = rng.sample(ks, min(len(ks), 9))
                else:
                    ks = range(n)
                for k in ks:
                    ps = list(plasmids)
                    ps[which] = gen.rotate(ps[which], k)
                    mods = [{"id": "m%d" % i, "seq": s} for i, s in enumerate(ps[1:], 1)]
                    recipes.append({"fn": "assemble", "enz": espec, "vector": {"id": "vec", "seq": ps[0]}, "modules": mods[::-1], "id": "p", "name": "p"})
    if not q:       # every enzyme of the family, not only one per geometry
        from .. import classes
        for e in enz.family():
            G = gen.geometry_of(e)
            for _ in range(4):
                r = ac.case_recipe(G, classes.enz_spec(e), rng, rng.randint(1, min(4, G.capacity() - 1)))
                if r:
                    recipes.append(r)
    recipes += ac.curated_many_refs(rng, 2 if q else 8)       # curated inputs (feature tables, long reference lists) assemble like bare ones
    ac.validate(run, "assemblies", recipes)
    if True:       # canonical assemblies of real registry plasmids (kb-size, annotated)
        from . import registry_asm
        rr = registry_asm.assembly_recipes(rng, 2 if q else 16)
        run.extra["registry_assemblies"] = len(rr)
        if rr:
            ac.validate(run, "registry-assemblies", rr)
    # generic history fuzzer: live objects used again and again (wrap, query, rotate by 0, edit in place, assemble)
    from .. import scenario
    sc = scenario.run(rng, 20 if q else 200)
    run.validate("scenario-assemblies", "Trace_Assembly", sc["assembly"], None, sigfn=ac.asm_sig, describe=ac.asm_describe)
    return run.finish("TLC: ImplProduct = Formula on every rotation and argument order of the small worlds (3 miniature geometries); I->S: "
                      "assemblies over every distinct real geometry (26) and 5 synthetic ones, chain lengths 1-5, site-free random "
                      "targets/backbones/placeholders (exactly two sites per plasmid), random rotation of every plasmid, shuffled "
                      "arguments, plus all (quick: sampled) rotations of one plasmid of a small case; TLC recomputes the decompositions "
                      "from the raw strings and compares the product with the closed form as circles; distinct = distinct input sets")


def replay_case(rec):
    return generic_replay(rec, exec_assembly)
