"""Common driver of the circular-record properties C13, C14, C15."""
from .. import gen, loader, record_drv as rd
from ..core import Run, generic_replay


def op_chains(rng, q, focus):
    """[(record, ops)] - operation chains on random records"""
    out = []
    nrec = {"C13": 150, "C14": 120, "C15": 80}[focus] * (1 if q else 8)
    for _ in range(nrec):
        rec = rd.random_record(rng, alphabet="ACGT" if rng.random() < 0.8 else "ACGTacgtRYN", order_ops=True)
        if rng.random() < 0.2:      # periodic words: rotation by a period leaves the letters but not the annotations in place
            from Bio.Seq import Seq
            unit = gen.rnd(rng.randint(1, 4), rng)
            reps = rng.randint(2, 5)
            rec2 = rd.random_record(rng, n=len(unit) * reps)
            rec2.seq = Seq(unit * reps)
            rec = rec2
        n = len(rec.seq)
        ops = []
        for _ in range(rng.randint(2, 6)):
            x = rng.random()
            if x < (0.55 if focus == "C13" else 0.3):
                k = rng.choice([0, 1, n - 1, n, n + 1, 2 * n, -1, -n, -n - 2, rng.randrange(-2 * n, 2 * n + 1), n // 2, 2, 3, 4, n // 3, 10**9 + rng.randrange(100), -(10**9) - rng.randrange(100)])
                ops.append((rng.choice("RL"), k))
            elif x < (0.7 if focus != "C15" else 0.4):
                if rng.random() < 0.3:      # what to carry over is the caller's choice: flags, or replacement values
                    kw = {}
                    for name, val in (("id", "rcid"), ("name", "rcname"), ("description", "rc of it"), ("dbxrefs", ["db:9"])):
                        x = rng.random()
                        if x < 0.3:
                            kw[name] = True
                        elif x < 0.45:
                            kw[name] = val
                    if rng.random() < 0.3:
                        kw["annotations"] = True
                    if rng.random() < 0.2:
                        kw["letter_annotations"] = True
                    ops.append(("RC", kw))
                else:
                    ops.append(("RC",))
                if focus == "C14":
                    ops.append(("COMM", rng.choice([1, n - 1, rng.randrange(0, 2 * n + 1), n // 2, n + 2])))
            elif x < 0.78 and focus == "C13":
                # a history on ONE object: rotate (look only), edit the object in place, rotate again by a congruent offset
                k = rng.randrange(1, max(2, n))
                ops.append(("RPEEK", "R", k, rng.random() < 0.3))
                for _e in range(rng.randint(1, 2)):
                    ops.append(("EDIT", rng.choice(["id", "feat", "loc", "track", "delfeat"]), rng.randrange(1000)))
                d, k2 = rng.choice([("R", k), ("R", k + n), ("L", n - k), ("R", k - n), ("L", -k)])
                ops.append(("RPEEK", d, k2, False))
                ops.append((d, k2))
            elif x < 0.74 and focus in ("C14", "C15"):
                # a history on ONE object: look, edit in place, look again (rec >> 0 and rec << n return the object itself)
                if focus == "C15":
                    s0 = str(rec.seq)
                    ops.append(("IN", s0[:3]))
                    ops.append(("R", 0))
                    new = gen.rnd(n, rng) if rng.random() < 0.5 else gen.rnd(rng.randint(3, n + 3), rng)
                    ops.append(("SETSEQ", new))
                    ops.append(("IN", s0[:3]))
                    ops.append(("IN", (new + new)[len(new) - 2:len(new) + 2]))
                else:
                    ops.append(("RCPEEK",))       # r.reverse_complement(), r annotated in place, r.reverse_complement() again
                    a = rng.randrange(n)
                    ops.append(("ADDFEAT", a, min(n, a + rng.randint(1, 5)), rng.choice([1, -1])))
                    ops.append(("RCPEEK",))
                    ops.append(("R", 0))
                    ops.append(("ADDFEAT", 0, min(n, 3), 1))
                    ops.append(("RCPEEK",))
            elif x < 0.85:
                s = str(rec.seq)
                L = rng.choice([0, 1, 2, n - 1, n, n + 1, n + 2, rng.randint(0, n + 2)])
                a = rng.randrange(n)
                qy = (s + s + s)[a:a + L]
                if rng.random() < 0.3 and qy:
                    i = rng.randrange(len(qy))
                    qy = qy[:i] + rng.choice("ACGT") + qy[i + 1:]
                ops.append(("IN", qy))
            elif x < 0.9:
                ops.append(("SL", rng.randint(-n - 2, n + 2), rng.randint(-n - 2, n + 2)))
            elif x < 0.95:
                bound = lambda: None if rng.random() < 0.35 else rng.randint(-n - 3, n + 3)   # noqa: E731
                ops.append(("SLS", bound(), bound(), rng.choice([None, 1, 2, 3, -1, -1, -2, -3, n, -n])))
            else:
                ops.append(("ADD", rng.choice(["left", "right"]), rng.choice(["str", "Seq", "SeqRecord", "CircularRecord", "slice", "empty-str", "empty-SeqRecord",
                                                                              "MutableSeq", "int", "None", "list", "bytes", "self"])))
        out.append((rec, ops))
    return out


def exhaustive_small(rng, focus):
    """C15 systematically on small records: every query length 0..n+2 at every origin, every slice bound"""
    out = []
    for n in (3, 4, 5):
        rec = rd.random_record(rng, n=n, nfeat=2)
        s = str(rec.seq)
        ops = []
        if focus == "C15":
            for L in range(0, n + 3):
                for a in range(n):
                    ops.append(("IN", (s * 3)[a:a + L]))
            for a in range(-n - 1, n + 2):
                for b in range(-n - 1, n + 2):
                    ops.append(("SL", a, b))
            for side in ("left", "right"):
                for what in ("str", "Seq", "SeqRecord", "CircularRecord", "slice", "empty-str", "empty-SeqRecord", "MutableSeq", "int", "None", "list", "bytes", "self"):
                    ops.append(("ADD", side, what))
        else:
            for k in range(-2 * n, 2 * n + 1):
                ops.append(("R", k))
                ops.append(("RC",) if focus == "C14" else ("L", (k * 7) % (n + 3)))
                if focus == "C14":
                    ops.append(("COMM", k))
        # the same at every rotation of the record (C15: the answer is the same for every rotation)
        for k in range(n):
            out.append((rec >> k, ops))
    # the degenerate circles: no letter at all, one letter, two letters (every k is a multiple of the length / of 1)
    from Bio.Seq import Seq
    from moclo.record import CircularRecord
    for word in ("", "A", "g", "AC", "TT"):
        n = len(word)
        rec = CircularRecord(Seq(word), id="tiny%d" % n, name="tiny", description="d", annotations={"topology": "circular", "molecule_type": "DNA"},
                             letter_annotations={"q": list(range(n))})
        if n:
            from Bio.SeqFeature import FeatureLocation, SeqFeature
            rec.features.append(SeqFeature(FeatureLocation(0, n, strand=1), type="misc_feature", qualifiers={"label": ["all"]}))
            rec.features.append(SeqFeature(FeatureLocation(n - 1, n, strand=-1), type="CDS", qualifiers={"label": ["last"]}))
        ops = []
        for k in (0, 1, -1, 2, n, -n, 7, 10**9 + 7, -(10**9) - 3):
            ops.append(("R", k))
            ops.append(("L", k))
            if focus == "C14":
                ops.append(("RC",))
                ops.append(("COMM", k % 1000))
        if focus == "C15":
            ops = [("IN", ""), ("IN", "A"), ("IN", word), ("IN", word + word), ("IN", (word + "C")[:2]), ("SL", 0, 0), ("SL", -1, 3), ("SL", 0, n),
                   ("SLS", None, None, -1), ("SLS", None, None, 2), ("ADD", "left", "str"), ("ADD", "right", "Seq"), ("R", 0), ("IN", word)]
        out.append((rec, ops))
    return out


def run(prop, tier, seed):
    run = Run(prop, tier, seed)
    rng, q = run.rng, run.quick
    loader.load()
    run.model_check("MC_CircularRecord", "MC_CircularRecord_quick.cfg" if q else "MC_CircularRecord_thorough.cfg", timeout=7200)
    if prop == "C13":
        run.model_check("MC_Locations", "MC_Locations_n5.cfg")
        run.model_check("MC_CircularRecord", "Neg_CircularRecord.cfg", expect_violation="C13_TrackFollows")
    if prop == "C15":
        run.model_check("MC_Slices", "MC_Slices.cfg")       # theorems about the slice operators (evaluated as ASSUMEs)
    if prop in ("C13", "C14"):
        rd.replay_transitions(run, "MC_CircularRecord_replay_quick.cfg" if q else "MC_CircularRecord_replay_thorough.cfg")
    chains = op_chains(rng, q, prop) + exhaustive_small(rng, prop)
    traces = [rd.chain(rec, ops) for rec, ops in chains]
    recipes = [None] * len(traces)
    if prop == "C15":
        for _ in range(3 if q else 30):
            for t in rd.wrap_events(rng):
                traces.append(t)
                recipes.append(None)
    for t in traces:
        for e in t:
            run.distinct.add((e["ev"], str(e.get("k")), str(e["pre"]["seq"]), str(e.get("q")), str(e.get("a")), str(e.get("b")), e.get("other")))
    run.add_sample({"trace": traces[0]})

    def sig(c, ev, tr):
        extra = ""
        if ev["ev"] == "Rot" and c.endswith("FeaturesFollow"):
            src = any(f["lab"].startswith("source") for f in ev["pre"]["feats"])
            extra = "|source" if src else ""
        if ev["ev"] == "Add":
            extra = "|%s|%s" % (ev["side"], ev["other"])
        return "%s|%s%s" % (c, ev["ev"], extra)

    def describe(c, ev, tr):
        d = {k: v for k, v in ev.items() if k not in ("pre", "post")}
        return "%s: %s on record %s -> %s" % (c, d, ev["pre"], ev.get("post", ev.get("res", ev.get("exc"))))
    # recipes are not regenerable from a seed-free description; the replay file carries the trace itself
    run.validate("record-ops", "Trace_Record", traces, None, sigfn=sig, describe=describe)
    if prop in ("C13", "C14"):
        from .. import scenario
        sc = scenario.run(rng, 20 if q else 200)
        run.validate("scenario-records", "Trace_Record", sc["record"], None, sigfn=sig, describe=describe)
    return run


def replay_case(rec):
    case = rec["case"]
    if case.get("kind") == "replay-record":
        return rd.replay_one(case)
    # a recorded trace: re-execute its operations on a record rebuilt from the logged pre-state
    from .. import project, tlc
    tr = case["trace"]
    first = tr[0]["pre"]
    obj = project.build({"seq": first["seq"], "feats": [{"lab": f["lab"].split("|")[0], "parts": f["parts"]} for f in first["feats"]],
                         "track": first["track"], "meta": ""}, "pastend", ftype=None)
    ops = []
    if tr and tr[0].get("ops"):
        ops = [tuple(o) for o in __import__("json").loads(tr[0]["ops"])]
        tr = []
    for e in tr:
        if e["ev"] == "Rot":
            ops.append((e["dir"], e["k"]))
        elif e["ev"] == "RevComp":
            ops.append(("RCPEEK",) if e.get("peek") else ("RC",))
        elif e["ev"] == "Commute":
            ops.append(("COMM", e["k"]))
        elif e["ev"] == "Contains":
            from .. import dna
            ops.append(("IN", dna.dec(e["q"])))
        elif e["ev"] == "Slice":
            ops.append(("SL", e["a"], e["b"]))
        elif e["ev"] == "Add":
            ops.append(("ADD", e["side"], e["other"]))
    if not ops:
        import random
        new = [t[0] for t in rd.wrap_events(random.Random(0))]
        v = tlc.validate("Trace_Record", [[x] for x in new], shards=1)
    else:
        v = tlc.validate("Trace_Record", [rd.chain(obj, ops)], shards=1)
    failing = sorted({c for _, _, cl in v.fails for c in cl})
    return rec["clause"] in failing
