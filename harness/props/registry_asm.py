"""Canonical assemblies of real registry plasmids: for every vector plasmid of a registry, chains of module plasmids of
the same kit whose overhangs lead from the vector's downstream overhang back to its upstream overhang."""
from .. import classes, loader, registries

_index = {}


def index():
    if _index:
        return _index
    loader.load()
    kit_of = {cls: spec for spec, cls in classes.kit_classes()}
    for reg, key, seq, cls in registries.plasmids():
        if cls not in kit_of:
            continue
        ent = registries.item(reg, key).entity
        try:
            up, down = str(ent.overhang_start()).upper(), str(ent.overhang_end()).upper()
        except Exception:  # noqa
            continue
        _index.setdefault(reg, []).append({"reg": reg, "key": key, "spec": kit_of[cls], "role": classes.role_of(cls),
                                           "cutter": cls.cutter.__name__, "up": up, "down": down, "len": len(seq)})
    return _index


def chains(rng, count, maxlen=9):
    """[(vector item, [module items])] found by a randomised walk over start overhangs"""
    out = []
    idx = index()
    regs = [r for r in idx if any(i["role"] == "vector" for i in idx[r])]
    tries = 0
    while len(out) < count and tries < count * 40:
        tries += 1
        reg = rng.choice(regs)
        vecs = [i for i in idx[reg] if i["role"] == "vector"]
        v = rng.choice(vecs)
        mods = [i for i in idx[reg] if i["role"] == "module" and i["cutter"] == v["cutter"]]
        o, chain, used = v["down"], [], set()
        while o != v["up"] and len(chain) < maxlen:
            cands = [m for m in mods if m["up"] == o and m["up"] not in used]
            if not cands:
                break
            m = rng.choice(cands)
            chain.append(m)
            used.add(m["up"])
            o = m["down"]
        if o == v["up"] and chain:
            out.append((v, chain))
    return out


def recipe(v, chain, rng, shuffle=True):
    mods = list(chain)
    if shuffle:
        rng.shuffle(mods)
    return {"fn": "assemble", "enz": {"name": v["cutter"]}, "vcls": v["spec"], "mcls": [m["spec"] for m in mods],
            "vector": {"id": v["key"], "plasmid": {"reg": v["reg"], "key": v["key"]}},
            "modules": [{"id": m["key"], "plasmid": {"reg": m["reg"], "key": m["key"]}} for m in mods],
            "id": "cassette", "name": "cassette", "assume_generic": True, "registry": True}


def assembly_recipes(rng, count):
    return [recipe(v, ch, rng) for v, ch in chains(rng, count)]


def swap_recipes(rng, q):
    """C19: every chain position replaced by another registry plasmid of the same type (same overhangs)"""
    out = []
    idx = index()
    for v, ch in chains(rng, 2 if q else 12):
        positions = range(len(ch)) if not q else [rng.randrange(len(ch))]
        for pos in positions:
            alts = [m for m in idx[v["reg"]] if m["role"] == "module" and m["cutter"] == v["cutter"] and m["up"] == ch[pos]["up"]
                    and m["down"] == ch[pos]["down"] and m["key"] != ch[pos]["key"]]
            if not alts:
                continue
            alt = rng.choice(alts)
            r = recipe(v, ch, rng, shuffle=False)
            r["twin"] = {"by": "swap", "pos": pos, "mod": {"id": alt["key"], "plasmid": {"reg": alt["reg"], "key": alt["key"]}}}
            r["mcls_swap"] = alt["spec"]
            out.append(r)
    return out
