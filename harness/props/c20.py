"""C20 — registries are coherent read-only mappings of uniquely identified plasmids."""
import collections.abc
import os
import shutil
import tempfile

from .. import loader, registries, tlaval
from ..core import Run, log

ABSENT = ["", "nope", "pYTK999", "a/b", "pYTK001.gb", "PYTK001"]


def observe(reg, kind, extra=None, tagfn=None, absent=ABSENT):
    """complete observation of one registry -> Registry event"""
    from moclo.record import CircularRecord
    ev = {"ev": "Registry", "kind": kind, "keys": [], "len": -1, "lookups": [], "absent": [], "expected": [], "members": [], "dir": []}
    ev.update(extra or {})
    try:
        ev["keys"] = [str(k) for k in iter(reg)]
    except BaseException as ex:  # noqa
        ev["keys"] = ["<iteration raised %s>" % type(ex).__name__]
    try:
        ev["len"] = len(reg)
    except BaseException:  # noqa
        ev["len"] = -2
    for k in ev["keys"]:
        d = {"key": k, "exc": "", "contains": False, "id": "", "rid": "", "circular": False, "res": "", "tag": 0}
        try:
            d["contains"] = k in reg
            it = reg[k]
            rec = it.entity.record
            d.update(id=str(it.id), rid=str(rec.id), circular=isinstance(rec, CircularRecord), res=str(it.resistance),
                     tag=tagfn(it) if tagfn else 0)
        except BaseException as ex:  # noqa
            d["exc"] = type(ex).__name__
        ev["lookups"].append(d)
    present = set(ev["keys"])
    for k in absent:
        if k in present:
            continue
        d = {"key": k, "exc": "", "contains": False}
        try:
            d["contains"] = k in reg
            reg[k]
            d["exc"] = "returned"
        except KeyError:
            d["exc"] = "KeyError"
        except BaseException as ex:  # noqa
            d["exc"] = type(ex).__name__
        ev["absent"].append(d)
    return ev


class DictRegistry(collections.abc.Mapping):
    """a member registry backed by a dict of Items (tag carried in the item name)"""
    def __init__(self, items):
        self._d = collections.OrderedDict(items)

    def __getitem__(self, k):
        return self._d[k]

    def __iter__(self):
        return iter(self._d)

    def __len__(self):
        return len(self._d)


_ENT = {}


def fake_item(id_, tag):
    """a real Item holding a real (valid) kit entity, tagged through its name"""
    from Bio.Seq import Seq
    from moclo.record import CircularRecord
    from moclo.registry.base import Item
    from moclo.kits import ytk
    seq = "GGTCTCACCCT" + "ACGT" * (3 + tag) + "AACGAGAGACC" + "TTTTTTT"
    rec = CircularRecord(Seq(seq), id=id_, name=id_)
    return Item(id=id_, name="tag%d" % tag, entity=ytk.YTKPart1(rec), resistance="Kanamycin")


def build_member(world, name):
    from moclo.registry.base import CombinedRegistry
    items = world[name]
    if name.startswith("C"):
        # a nested combination: built the way the specification defines it (from its flat members)
        flat = {"C12": ["M1", "M2"], "C32": ["M3", "M2"]}[name]
        c = CombinedRegistry()
        for f in flat:
            c << build_member(world, f)
        return c
    return DictRegistry([(it["id"], fake_item(it["id"], it["tag"])) for it in items])


def replay_histories(run, cfg):
    """S->I: every history of Add actions TLC enumerated is performed on a real CombinedRegistry"""
    from moclo.registry.base import CombinedRegistry
    d = tempfile.mkdtemp(prefix="verif-dump-")
    path = os.path.join(d, "reg")
    r = run.model_check("Registry", cfg, extra=["-dump", path], coverage=True)
    import re
    m = re.search(r'<<\s*"WORLD"', r.out)
    world = tlaval.parse(r.out[m.start():])[1]
    n = 0
    events = []
    for st in tlaval.parse_dump(path + ".dump"):
        hist = st["hist"]
        comb = CombinedRegistry()
        inner = CombinedRegistry()          # ONE live object: grows, and is added to `comb` again and again
        for i, name in enumerate(hist):
            if name == "?":                 # the registry is looked at between two additions
                len(comb), list(comb), ("a" in comb)
            elif name == "I":
                if i % 2:
                    comb.add_registry(inner)
                else:
                    comb << inner
            elif name.startswith("I:"):
                inner << build_member(world, name[2:])
            elif i % 2:
                comb.add_registry(build_member(world, name))
            else:
                comb << build_member(world, name)
        got = [(k, int(comb[k].name[3:])) for k in comb]
        want = [(it["id"], it["tag"]) for it in st["comb"]]
        n += 1
        run.distinct.add(tuple(hist))
        if n == 40:
            run.add_sample({"history": hist, "spec_items": want, "impl_items": got})
        if sorted(got) != sorted(want) or len(comb) != len(want):
            run.violation("C20", "C20:ReplayedHistory", "C20:ReplayedHistory|%s%s%s" % ("nested" if any(h.startswith("C") for h in hist) else "flat", "|observed" if "?" in hist else "", "|live" if "I" in hist else ""),
                          "adding members %s: the specification gives items %s, the real CombinedRegistry holds %s (len %d)" % (hist, want, got, len(comb)),
                          {"kind": "replay-registry", "world": world, "hist": hist, "want": want})
        if n % 7 == 0:
            events.append([observe(comb, "combined", {"members": [m for m in st["added"] if m]}, tagfn=lambda it: int(it.name[3:]), absent=["zz", ""])])
    run.replayed["combined-histories"] = n
    shutil.rmtree(d, ignore_errors=True)
    return events


def filesystem_events(rng, q):
    """directories of typed GenBank plasmids under supported / unsupported extensions, sub-directories, foreign files"""
    from Bio import SeqIO
    from moclo.kits import ytk
    from moclo.registry.base import FilesystemRegistry
    # "typed GenBank plasmids": plasmids the registry's base (YTKPart) can characterize - the part plasmids, not the vectors
    pls = [p for p in registries.plasmids() if p[0] == "YTKRegistry" and ytk.YTKPart in p[3].__mro__]
    from moclo.registry.ytk import YTKRegistry
    yreg = YTKRegistry()
    evs = []
    for _ in range(2 if q else 10):
        d = tempfile.mkdtemp(prefix="verif-fsreg-")
        try:
            expected = []
            all_written = []
            chosen = rng.sample(pls, 6 if q else 12)
            exts = ["gb", "gbk", "gb", "gbk", "GB", "Gbk", "genbank", "txt", "fasta", "gb.bak"]
            for i, (_, key, seq, cls) in enumerate(chosen):
                rec = yreg[key].entity.record
                if rng.random() < 0.6:
                    # the same plasmid deposited with another origin: on or next to one of its recognition sites, or anywhere
                    s0 = str(rec.seq)
                    up = s0.upper()
                    hits = [i for i in range(len(up)) if (up + up)[i:i + 6] in ("GGTCTC", "GAGACC")]
                    k = (rng.choice(hits) + rng.randint(-6, 11)) % len(s0) if hits and rng.random() < 0.8 else rng.randrange(len(s0))
                    rec = rec << k          # (feature table kept: the resistance marker is read from it)
                ext = exts[i % len(exts)] if i < len(exts) else rng.choice(exts)
                stem = rng.choice(["%s_%d" % (key, i), "plasmid-%d" % i, "%s.v%d" % (key, i), "lab.%d.final" % i])
                if rng.random() < 0.4:
                    # a curated file: the resistance cassette carries a second label (gene name first, marker second, or the
                    # other way round) - a feature may have any number of /label qualifiers
                    import copy as _copy
                    from moclo.registry._utils import _ANTIBIOTICS
                    rec = _copy.deepcopy(rec)
                    for ft in rec.features:
                        labs = ft.qualifiers.get("label", [])
                        if any(x in _ANTIBIOTICS for x in labs):
                            ft.qualifiers["label"] = (["bla cassette"] + list(labs)) if rng.random() < 0.6 else (list(labs) + ["selection marker"])
                            break
                with open(os.path.join(d, "%s.%s" % (stem, ext)), "w") as f:
                    SeqIO.write(rec, f, "genbank")
                all_written.append((stem, ext))
                if ext in ("gb", "gbk"):
                    expected.append(stem)
            os.mkdir(os.path.join(d, "subdir.gb"))            # a directory NAMED like a GenBank file
            os.mkdir(os.path.join(d, "nested"))
            with open(os.path.join(d, "nested", "inner.gb"), "w") as f:
                SeqIO.write(yreg[chosen[0][1]].entity.record, f, "genbank")
            with open(os.path.join(d, "README.md"), "w") as f:
                f.write("not a plasmid\n")
            with open(os.path.join(d, "table.csv"), "w") as f:
                f.write("a,b\n")
            # the extensions the registry looks for: the default pair, or a choice of the user (tuple, list, one only)
            exts_arg = rng.choice([None, None, ("gbk",), ("genbank", "gb"), ["gb"], ("txt", "gbk", "gb"), ("GB",)])
            if exts_arg is None:
                reg = FilesystemRegistry(d, ytk.YTKPart)
            else:
                reg = FilesystemRegistry(d, ytk.YTKPart, extensions=exts_arg)
                expected = [x for x in all_written if x[1] in exts_arg]
                expected = [x[0] for x in expected]
            listing = []
            for name in sorted(os.listdir(d)):
                stem, dot, ext = name.rpartition(".")
                listing.append({"stem": stem if dot else name, "ext": ext if dot else "", "isdir": os.path.isdir(os.path.join(d, name))})
            first = observe(reg, "filesystem", {"expected": expected, "dir": listing, "exts": list(exts_arg or ("gb", "gbk"))}, absent=ABSENT + ["nested", "subdir", "README", "inner"])
            # the directory is live: the SAME registry object is looked at again after a file was added and one was removed
            trace = [first]
            try:
                victim = sorted(n for n in os.listdir(d) if os.path.isfile(os.path.join(d, n)) and n.rpartition(".")[2] in (exts_arg or ("gb", "gbk")))
                if victim:
                    os.remove(os.path.join(d, victim[0]))
                rec2 = yreg[chosen[-1][1]].entity.record
                with open(os.path.join(d, "added-later.%s" % (list(exts_arg or ("gb", "gbk"))[0])), "w") as f:
                    SeqIO.write(rec2, f, "genbank")
                listing2 = []
                for name in sorted(os.listdir(d)):
                    stem, dot, ext = name.rpartition(".")
                    listing2.append({"stem": stem if dot else name, "ext": ext if dot else "", "isdir": os.path.isdir(os.path.join(d, name))})
                removed = victim[0].rpartition(".")[0] if victim else "nope"
                trace.append(observe(reg, "filesystem", {"expected": [], "dir": listing2, "exts": list(exts_arg or ("gb", "gbk"))},
                                     absent=ABSENT + [removed, "nested"]))
            except OSError:
                pass
            evs.append(trace)
        finally:
            shutil.rmtree(d, ignore_errors=True)
    return evs


def run(tier, seed):
    run = Run("C20", tier, seed)
    rng, q = run.rng, run.quick
    loader.load()
    traces = replay_histories(run, "MC_Registry_quick.cfg" if q else "MC_Registry_thorough.cfg")
    # the embedded registries, exhaustively
    n_items = 0
    regs = []
    for mod, name, cls in registries.registry_classes():
        reg = cls()
        regs.append(reg)
        ev = observe(reg, "embedded", {"name": name})
        n_items += len(ev["lookups"])
        traces.append([ev])
    run.extra["embedded_items_looked_up"] = n_items
    # combinations of real registries: overlapping and repeated members
    from moclo.registry.base import CombinedRegistry
    for order in ([0, 1, 2], [2, 0, 0, 1], [4, 3, 2, 1, 0], [1, 1]):
        comb = CombinedRegistry()
        members = []
        for i in order:
            if i < len(regs):
                comb << regs[i]
                members.append([{"id": k, "tag": i + 1} for k in regs[i]])
        tagof = {}
        for i in order:
            if i < len(regs):
                for k in regs[i]:
                    tagof.setdefault(id(regs[i][k]), i + 1)
        traces.append([observe(comb, "combined", {"members": members}, tagfn=lambda it: tagof.get(id(it), -1))])
    traces += filesystem_events(rng, q)
    for t in traces:
        run.distinct.add((t[0]["kind"], tuple(t[0]["keys"][:50]), t[0]["len"]))
    run.add_sample({"event": {k: (v if k not in ("lookups", "keys", "members") else v[:3]) for k, v in traces[-1][0].items()}})
    run.validate("registries", "Trace_Registry", traces, None,
                 sigfn=lambda c, ev, tr: "%s|%s" % (c, ev["kind"]),
                 describe=lambda c, ev, tr: "%s: %s registry with keys %s len=%s; failing lookups %s; absent %s; expected %s" % (
                     c, ev["kind"], ev["keys"][:12], ev["len"], [x for x in ev["lookups"] if x["exc"] or x["id"] != x["key"]][:5], ev["absent"][:6], ev["expected"][:12]))
    run.model_check("FsRegistry", "MC_FsRegistry.cfg", coverage=True)
    run.model_check("FsRegistry", "Neg_FsRegistry.cfg", expect_violation="C20_ListingLookupCoherent")
    from .. import housekeeping
    housekeeping.run_into(run, 40 if q else 400)
    return run.finish("TLC: every sequence of <= %d additions of overlapping / repeated / nested members to a combined registry (KeysOnce, "
                      "UnionOfMembers, FirstWins); S->I: every enumerated history performed on a real CombinedRegistry (both << and "
                      "add_registry) and compared; I->S: the five embedded registries observed exhaustively (iteration, len, every key "
                      "looked up, id, circular record, resistance, absent keys), combinations of them, and generated directories (typed "
                      "GenBank plasmids under supported and unsupported extensions incl. upper-case ones, sub-directories - one named "
                      "x.gb -, foreign files); distinct = distinct registries observed / histories" % (3 if q else 5))


def replay_case(rec):
    case = rec["case"]
    if case.get("kind") == "replay-registry":
        from moclo.registry.base import CombinedRegistry
        loader.load()
        comb = CombinedRegistry()
        inner = CombinedRegistry()
        for i, name in enumerate(case["hist"]):
            if name == "?":
                len(comb), list(comb)
            elif name == "I":
                comb.add_registry(inner) if i % 2 else comb << inner
            elif name.startswith("I:"):
                inner << build_member(case["world"], name[2:])
            elif i % 2:
                comb.add_registry(build_member(case["world"], name))
            else:
                comb << build_member(case["world"], name)
        got = [(k, int(comb[k].name[3:])) for k in comb]
        log("replay: %s -> %s ; specification %s" % (case["hist"], got, case["want"]))
        return sorted(map(tuple, got)) != sorted(map(tuple, case["want"]))
    # observations are re-made from scratch: rerun the whole quick check and see whether the clause still fails
    import random
    loader.load()
    from .. import tlc
    traces = []
    for mod, name, cls in registries.registry_classes():
        traces.append([observe(cls(), "embedded", {"name": name})])
    traces += filesystem_events(random.Random(0), True)
    v = tlc.validate("Trace_Registry", traces)
    return rec["clause"] in {c for _, _, cl in v.fails for c in cl}
