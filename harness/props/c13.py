"""C13 — see properties.jsonl; decided by spec/CircularRecord.tla (MC_CircularRecord, Trace_Record)."""
from . import record_common

RULES = {
    "C13": "TLC: all rotation / reverse-complement sequences on every small record with every feature shape (group action, features and track follow); S->I: every enumerated transition replayed on real CircularRecords in two coordinate representations; I->S: random operation chains (k negative, zero, multiples, > n) on records with random feature tables and tracks, each result compared with the spec's operation and with the image of the chain's first record under the composed group element; distinct = distinct (operation, argument, record) events",
    "C14": "TLC: RevComp in the same state machine (involution, commutation with rotation, spelling constant); S->I: every enumerated RevComp transition replayed (incl. pre-states with past-the-end coordinates); I->S: chains mixing rotations and reverse complements; distinct = distinct events",
    "C15": "TLC: circular membership is rotation invariant on the small world; I->S: membership for every query length 0..n+2 at every origin and every rotation of small records, all slice bounds in -n-1..n+1, both operands of + with str/Seq/SeqRecord/CircularRecord/slice, wrapping linear records, aliasing probes of the wrapping constructor; distinct = distinct events",
}


def run(tier, seed):
    r = record_common.run("C13", tier, seed)
    return r.finish(RULES["C13"])


replay_case = record_common.replay_case
