"""Run a function in a forked child (fresh class state: the parent has imported the kits and
validated nothing) and get its JSON-serialisable result back through a pipe."""
import json
import os
import sys
import traceback


def call(fn, *a):
    r, w = os.pipe()
    pid = os.fork()
    if pid == 0:
        code = 0
        try:
            os.close(r)
            out = json.dumps({"ok": fn(*a)})
        except BaseException:  # noqa
            out = json.dumps({"err": traceback.format_exc()})
            code = 1
        with os.fdopen(w, "w") as f:
            f.write(out)
        os._exit(code)
    os.close(w)
    with os.fdopen(r) as f:
        data = f.read()
    os.waitpid(pid, 0)
    d = json.loads(data)
    if "err" in d:
        raise RuntimeError("forked child failed:\n" + d["err"])
    return d["ok"]


class Server(object):
    """A pristine template process forked early; every request is run in a grandchild forked
    from the template, so each request sees fresh class state and forking stays cheap."""

    def __init__(self):
        import importlib
        self.req_r, self.req_w = os.pipe()
        self.res_r, self.res_w = os.pipe()
        self.pid = os.fork()
        if self.pid == 0:
            os.close(self.req_w)
            os.close(self.res_r)
            inp = os.fdopen(self.req_r)
            out = os.fdopen(self.res_w, "w")
            for line in inp:
                req = json.loads(line)
                mod = importlib.import_module(req["mod"])
                try:
                    res = {"ok": call(getattr(mod, req["fn"]), *req["args"])}
                except BaseException:  # noqa
                    res = {"err": traceback.format_exc()}
                out.write(json.dumps(res) + "\n")
                out.flush()
            os._exit(0)
        os.close(self.req_r)
        os.close(self.res_w)
        self.out = os.fdopen(self.req_w, "w")
        self.inp = os.fdopen(self.res_r)

    def call(self, mod, fn, *args):
        self.out.write(json.dumps({"mod": mod, "fn": fn, "args": args}) + "\n")
        self.out.flush()
        d = json.loads(self.inp.readline())
        if "err" in d:
            raise RuntimeError("forked child failed:\n" + d["err"])
        return d["ok"]

    def close(self):
        try:
            self.out.close()
            os.waitpid(self.pid, 0)
        except Exception:  # noqa
            pass
