"""./check selftest — demonstrates that the specification is bound to the code:
(a) an accepted trace of every trace specification is corrupted in one logged field and must be rejected with
    the expected clause; (b) every negative model must be refuted by TLC.  Writes evidence/selftest.json."""
import copy
import json
import os
import random
import time

from . import loader, tlc
from .core import EVID, log


def _clauses(module, trace):
    v = tlc.validate(module, [trace], shards=1)
    return sorted({c for _, _, cl in v.fails for c in cl}), sorted({c for _, _, cl in v.notes for c in cl})


def main(tier, seed):
    loader.load()
    rng = random.Random(seed)
    t0 = time.time()
    results = []
    ok = True

    def case(name, module, trace, mutate, expect):
        nonlocal ok
        base, _ = _clauses(module, trace)
        bad = copy.deepcopy(trace)
        mutate(bad)
        got, notes = _clauses(module, bad)
        good = base == [] and expect in got
        results.append({"case": name, "module": module, "accepted_unmodified": base == [], "expected_clause": expect,
                        "clauses_after_corruption": got, "pass": good})
        log("selftest %-34s %s  (unmodified: %s, corrupted: %s)" % (name, "ok" if good else "FAILED", base or "accepted", got))
        ok = ok and good

    # --- Trace_Regex
    from .props import c16
    tr = c16.exec_search({"fn": "search", "pattern": "CA(NN)", "target": "GCCCCAT", "kind": "Seq", "linear": False, "pos": None, "endpos": None})
    case("regex: start + 1", "Trace_Regex", tr, lambda t: t[0]["res"].update(s=t[0]["res"]["s"] + 1), "C16:Leftmost")
    case("regex: group letter changed", "Trace_Regex", tr, lambda t: t[0]["res"]["groups"][1].__setitem__(0, 1), "C16:GroupIsMatchedText")
    # --- Trace_Typing
    from .typing_drv import exec_typing
    from . import gen, enz
    G = gen.Geometry("GGTCTC", 1, 4)
    s = G.module("AATG", "ACGTAC", "GCTT", "TTAA", rng)
    tr = exec_typing({"cls": {"generic": "module", "enz": {"name": "BsaI"}}, "seq": s, "twin": {"by": "rot", "k": 3, "via": "api"}})
    case("typing: overhang letter changed", "Trace_Typing", tr, lambda t: t[0]["res"]["up"].__setitem__(0, 2), "C04:DigestAgreement")
    case("typing: twin target changed", "Trace_Typing", tr, lambda t: t[0]["twin"]["res"]["tgt"].__setitem__(0, 3), "C02:RotInv")
    case("typing: is_valid raised", "Trace_Typing", tr, lambda t: t[0]["res"].update(exc="KeyError"), "C17:IsValidTotal")
    trp = exec_typing({"cls": {"generic": "module", "enz": {"name": "BsaI"}}, "seq": s, "plain": "absent", "twin": {"by": "rot", "k": 4}})
    case("typing: plain-container twin overhang", "Trace_Typing", trp, lambda t: t[0]["twin"]["res"]["up"].__setitem__(0, 2), "C02:RotInv")
    from .typing_drv import exec_characterize
    sp = G.module("CCCT", "ACGTAC", "AACG", "TTAA", rng)
    trc = exec_characterize({"fn": "characterize", "base": {"kit": "ytk", "name": "YTKPart"}, "seq": sp, "twin": {"by": "case", "mask": "01"}})
    case("characterize: twin gets another type", "Trace_Typing", trc, lambda t: t[0]["twin"]["res"].update(cls="YTKPart2"), "C18:CaseInvCharacterize")
    case("characterize: refusal although a type accepts", "Trace_Typing", trc, lambda t: t[0]["res"].update(cls="", exc="RuntimeError", valid=False),
         "C05:CharacterizeFailsIffNoCandidate")
    # --- Trace_Record
    from . import record_drv as rd
    rec = rd.random_record(random.Random(5), n=9, nfeat=2)
    tr = rd.chain(rec, [("R", 2), ("RC",), ("IN", str(rec.seq)[:3]), ("SL", 1, 5)])
    case("record: rotated sequence letter", "Trace_Record", tr, lambda t: t[0]["post"]["seq"].__setitem__(0, (t[0]["post"]["seq"][0] % 4) + 1), "C13:SequenceRotated")
    case("record: reverse complement not circular", "Trace_Record", tr, lambda t: t[1]["post"].update(circular=False), "C14:StaysCircular")
    case("record: membership answer flipped", "Trace_Record", tr, lambda t: t[2].update(res=not t[2]["res"]), "C15:ContainsIsCircular")
    tr2 = rd.chain(rec, [("SLS", None, 3, -1), ("RPEEK", "R", 2, False), ("EDIT", "id", 0), ("RPEEK", "R", 11, False)])
    case("record: backwards slice letter", "Trace_Record", tr2, lambda t: t[0]["res"]["seq"].__setitem__(0, (t[0]["res"]["seq"][0] % 4) + 1), "C15:SliceIsLinearString")
    case("record: stale identifiers after an edit", "Trace_Record", tr2, lambda t: t[2]["post"].update(meta=t[1]["post"]["meta"]), "C13:MetaCarried")
    # --- Trace_Assembly
    from .asm_drv import exec_assembly
    c = G.case(random.Random(3), 2)
    r = {"fn": "assemble", "enz": {"name": "BsaI"}, "vector": {"id": "vec", "seq": c["vector"]},
         "modules": [{"id": "m%d" % i, "seq": m} for i, m in enumerate(c["modules"], 1)], "id": "p", "name": "p", "repeat": True}
    tr = exec_assembly(r)
    case("assembly: product letter changed", "Trace_Assembly", tr, lambda t: t[0]["out"]["seq"].__setitem__(3, (t[0]["out"]["seq"][3] % 4) + 1), "C01:ProductIsFormula")
    case("assembly: an input differs afterwards", "Trace_Assembly", tr, lambda t: t[0]["after"].__setitem__(1, t[0]["after"][1] + " "), "C07:InputsRestored")
    case("assembly: a module reported unused", "Trace_Assembly", tr, lambda t: t[0]["out"].update(unused=["m1"], nwarn=1), "C03:UnusedExactlyLeftover")
    case("assembly: provenance feature dropped", "Trace_Assembly", tr, lambda t: t[0]["out"]["feats"].pop(0), "C09:SourcesTile")
    # --- Trace_Registry
    from .props import c20
    from moclo.registry.base import CombinedRegistry
    world = {"M1": [{"id": "a", "tag": 1}, {"id": "b", "tag": 1}], "M2": [{"id": "b", "tag": 2}, {"id": "c", "tag": 2}]}
    comb = CombinedRegistry()
    comb << c20.build_member(world, "M1") << c20.build_member(world, "M2")
    tr = [c20.observe(comb, "combined", {"members": [world["M1"], world["M2"]]}, tagfn=lambda it: int(it.name[3:]), absent=["zz"])]
    case("registry: second member wins", "Trace_Registry", tr, lambda t: t[0]["lookups"][1].update(tag=2), "C20:FirstWins")
    case("registry: len off by one", "Trace_Registry", tr, lambda t: t[0].update(len=t[0]["len"] + 1), "C20:LenIsKeys")
    # --- negative models
    for module, cfg, inv in (("Session", "Neg_Session.cfg", "C06_VerdictIndependent"), ("MC_Assembly", "Neg_Assembly.cfg", "C07_InputsRestored")):
        r = tlc.model_check(module, cfg)
        good = inv in r.violated
        results.append({"case": "negative model %s" % cfg, "expected_violation": inv, "violated": r.violated, "pass": good})
        log("selftest %-34s %s" % ("negative model " + cfg, "ok" if good else "FAILED"))
        ok = ok and good
    os.makedirs(EVID, exist_ok=True)
    json.dump({"selftest": results, "all_pass": ok, "wall_s": round(time.time() - t0, 1)}, open(os.path.join(EVID, "selftest.json"), "w"), indent=1)
    print("selftest: %d cases, %s" % (len(results), "all pass" if ok else "FAILURES"))
    return 0 if ok else 2
