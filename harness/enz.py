"""Type IIS enzymes: the real family of the properties and synthetic miniature geometries.

An enzyme is abstracted to its geometry (site, off, ovh): recognition site, number of
nucleotides between the site and the top-strand cut, length of the 5' overhang."""
from . import dna, loader

_cache = {}


def geometry(e):
    el = e.elucidate()
    site = e.site
    assert el.startswith(site), (e, el)
    off = el.index("^") - len(site)
    return site, off, len(e.ovhgseq)


def enz_json(e):
    s, o, k = geometry(e)
    return {"site": dna.enc(s), "off": o, "ovh": k}


def family():
    """Bio.Restriction enzymes that are single-cut, non-palindromic, with an unambiguous site,
    cutting downstream of it and leaving a 5' overhang (C01's quantifier)."""
    if "family" in _cache:
        return _cache["family"]
    loader.load()
    from Bio.Restriction import AllEnzymes
    out = []
    for e in sorted(AllEnzymes, key=lambda x: x.__name__):
        try:
            if not e.is_5overhang() or e.is_palindromic() or e.is_unknown():
                continue
            if e.scd5 is not None or e.scd3 is not None:
                continue
            if set(e.site) - set("ACGT"):
                continue
            el = e.elucidate()
            if not el.startswith(e.site) or "^" not in el or "_" not in el:
                continue
            if el.index("^") > el.index("_"):
                continue
            if len(e.ovhgseq) < 1 or set(e.ovhgseq) != {"N"}:
                continue
            if el.index("^") - len(e.site) < 1:
                continue
            out.append(e)
        except Exception:  # noqa
            continue
    _cache["family"] = out
    return out


def distinct_geometries():
    """One representative enzyme per distinct (site, off, ovh)."""
    seen = {}
    for e in family():
        seen.setdefault(geometry(e), e)
    return list(seen.values())


def synthetic(site, off, ovh, name=None):
    """A synthetic Type IIS enzyme with the given geometry, usable by the real code
    (Bio.Restriction machinery: elucidate / catalyse / search / is_5overhang ...)."""
    key = (site, off, ovh)
    if key in _cache:
        return _cache[key]
    loader.load()
    from Bio.Restriction import BsaI
    from Bio.Restriction.Restriction import RestrictionType
    name = name or "Syn%s_%d_%d" % (site, off, ovh)
    size = len(site)
    rcs = dna.rc(site)
    assert rcs != site
    fst5 = size + off
    fst3 = off + ovh
    d = dict(
        site=site, size=size, fst5=fst5, fst3=fst3, scd5=None, scd3=None, ovhg=-ovh, ovhgseq="N" * ovh,
        compsite="(?=(?P<%s>%s))|(?=(?P<%s_as>%s))" % (name, site, name, rcs),
        results=None, charac=(fst5, fst3, None, None, site), freq=4.0 ** size, id=0,
        inact_temp=65, opt_temp=37, substrat="DNA", suppl=("N",), uri="", dna=None,
    )
    e = RestrictionType(str(name), BsaI.__bases__, d)
    assert e.elucidate() == site + "N" * off + "^" + "N" * ovh + "_N", e.elucidate()
    _cache[key] = e
    return e


MINI = [("GA", 1, 2), ("G", 1, 1), ("CA", 2, 1), ("GA", 1, 3), ("GGA", 1, 2)]
