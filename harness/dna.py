"""Integer encoding of DNA shared with spec/DNA.tla, and pattern -> token parsing."""
LETTERS = "ACGTRYSWKMBDHVN"
CODE = {c: i + 1 for i, c in enumerate(LETTERS)}
CODE.update({c.lower(): i + 17 for i, c in enumerate(LETTERS)})
DECODE = {v: k for k, v in CODE.items()}
_COMP = str.maketrans("ACGTRYSWKMBDHVNacgtryswkmbdhvn", "TGCAYRSWMKVHDBNtgcayrswmkvhdbn")


def enc(s):
    """str / Seq -> list of ints (0 / 16 for characters outside the IUPAC alphabet)."""
    s = str(s)
    return [CODE.get(c, 16 if c.islower() else 0) for c in s]


def dec(w):
    return "".join(DECODE.get(x, "?") for x in w)


def rc(s):
    return str(s).translate(_COMP)[::-1]


def cyc_eq(a, b):
    return len(a) == len(b) and (a in b + b)


def tokens(pattern):
    """Parse the DNA pattern language (letters, groups, X* / X*? runs) into spec tokens.

    Raises ValueError for syntax outside the modelled language."""
    toks = []
    i = 0
    while i < len(pattern):
        ch = pattern[i]
        if ch == "(":
            toks.append({"k": "open", "c": 0, "lazy": False})
            i += 1
        elif ch == ")":
            toks.append({"k": "close", "c": 0, "lazy": False})
            i += 1
        elif ch.upper() in CODE and ch.isalpha():
            c = CODE[ch.upper()] + (16 if ch.islower() else 0)     # lower-case pattern letters are literal (see LetterMatches)
            if i + 1 < len(pattern) and pattern[i + 1] in "*+":
                lazy = i + 2 < len(pattern) and pattern[i + 2] == "?"
                if pattern[i + 1] == "+":          # X+ = X X*  (same priority order)
                    toks.append({"k": "lit", "c": c, "lazy": False})
                toks.append({"k": "star", "c": c, "lazy": lazy})
                i += 3 if lazy else 2
            else:
                toks.append({"k": "lit", "c": c, "lazy": False})
                i += 1
        else:
            raise ValueError("pattern syntax outside the model: %r in %r" % (ch, pattern))
    return toks


def tokens_or_empty(pattern):
    """tokens(), or [] when the pattern uses syntax outside the modelled language (the clauses that need the
    tokens are then skipped or reduced to remarks; the clauses computed from sites and cuts still apply)"""
    try:
        return tokens(pattern)
    except ValueError:
        return []


_IUPAC = {"A": "A", "C": "C", "G": "G", "T": "T", "R": "AG", "Y": "CT", "S": "CG", "W": "AT", "K": "GT", "M": "AC",
          "B": "CGT", "D": "AGT", "H": "ACT", "V": "ACG", "N": "ACGT"}


def occurrences_any_origin(pattern, seq, limit=220):
    """For a pattern OUTSIDE the modelled language (look-around assertions and the like): the number of places of the
    circle at which the pattern - read with Python's own `re`, IUPAC letters expanded here, independently of moclo.regex -
    matches within one turn in AT LEAST ONE linearisation of the plasmid.  A context-free pattern gives the same count
    in every linearisation; with a look-around the count is the most permissive reading, which is the one under which an
    implementation that accepts the plasmid at some origin has seen an occurrence.  -1 = not evaluated (too long / not
    translatable)."""
    import re as _re
    n = len(seq)
    if not 0 < n <= limit:
        return -1
    out, i = [], 0
    while i < len(pattern):
        c = pattern[i]
        if pattern.startswith("(?", i):
            m = _re.match(r"\(\?(?:<[!=]|[!=:]|P<[A-Za-z_0-9]+>)", pattern[i:])
            if not m:
                return -1
            out.append(m.group(0))
            i += len(m.group(0))
            continue
        if c.upper() in _IUPAC:
            out.append("[%s]" % _IUPAC[c.upper()])
        elif c in "()*?+|":
            out.append(c)
        else:
            return -1
        i += 1
    try:
        rx = _re.compile("".join(out), _re.I)
    except _re.error:
        return -1
    s = seq.upper()
    places = set()
    for o in range(n):
        lin = s[o:] + s[:o]
        dbl = lin + lin
        for j in range(n):
            if (o + j) % n not in places and rx.match(dbl, j, j + n):
                places.add((o + j) % n)
    return len(places)
