"""Integer encoding of DNA shared with spec/DNA.tla, and pattern -> token parsing."""
LETTERS = "ACGTRYSWKMBDHVN"
CODE = {c: i + 1 for i, c in enumerate(LETTERS)}
CODE.update({c.lower(): i + 17 for i, c in enumerate(LETTERS)})
DECODE = {v: k for k, v in CODE.items()}
_COMP = str.maketrans("ACGTRYSWKMBDHVNacgtryswkmbdhvn", "TGCAYRSWMKVHDBNtgcayrswmkvhdbn")


def enc(s):
    """str / Seq -> list of ints (0 / 16 for characters outside the IUPAC alphabet)."""
    s = str(s)
    return [CODE.get(c, 16 if c.islower() else 0) for c in s]


def dec(w):
    return "".join(DECODE.get(x, "?") for x in w)


def rc(s):
    return str(s).translate(_COMP)[::-1]


def cyc_eq(a, b):
    return len(a) == len(b) and (a in b + b)


def tokens(pattern):
    """Parse the DNA pattern language (letters, groups, X* / X*? runs) into spec tokens.

    Raises ValueError for syntax outside the modelled language."""
    toks = []
    i = 0
    while i < len(pattern):
        ch = pattern[i]
        if ch == "(":
            toks.append({"k": "open", "c": 0, "lazy": False})
            i += 1
        elif ch == ")":
            toks.append({"k": "close", "c": 0, "lazy": False})
            i += 1
        elif ch.upper() in CODE and ch.isalpha():
            c = CODE[ch.upper()] + (16 if ch.islower() else 0)     # lower-case pattern letters are literal (see LetterMatches)
            if i + 1 < len(pattern) and pattern[i + 1] in "*+":
                lazy = i + 2 < len(pattern) and pattern[i + 2] == "?"
                if pattern[i + 1] == "+":          # X+ = X X*  (same priority order)
                    toks.append({"k": "lit", "c": c, "lazy": False})
                toks.append({"k": "star", "c": c, "lazy": lazy})
                i += 3 if lazy else 2
            else:
                toks.append({"k": "lit", "c": c, "lazy": False})
                i += 1
        else:
            raise ValueError("pattern syntax outside the model: %r in %r" % (ch, pattern))
    return toks


def tokens_or_empty(pattern):
    """tokens(), or [] when the pattern uses syntax outside the modelled language (the clauses that need the
    tokens are then skipped or reduced to remarks; the clauses computed from sites and cuts still apply)"""
    try:
        return tokens(pattern)
    except ValueError:
        return []
