"""Harness binding the TLA+ specification of moclo (../spec) to the implementation."""
