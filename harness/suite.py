"""./check suite - the repository's own test suite, run on a scratch copy with its calls recorded from outside
(harness/suite_plugin.py), and every recorded call validated by TLC against the trace specifications."""
import json
import os
import shutil
import subprocess
import tempfile
import time

from . import loader, tlc
from .core import EVID, log

MODULES = {"regex": "Trace_Regex", "typing": "Trace_Typing", "assembly": "Trace_Assembly", "record": "Trace_Record"}


def main(tier, seed):
    t0 = time.time()
    d = tempfile.mkdtemp(prefix="verif-suite-")
    try:
        repo = os.path.join(d, "repo")
        subprocess.check_call(["rsync", "-a", "--exclude", ".git", loader.REPO + "/", repo + "/"])
        env = dict(os.environ, VERIF_REPO=repo, VERIF_SUITE_TRACE=os.path.join(d, "trace"), PYTHONPATH=tlc.VERIF, PYTHONHASHSEED="0")
        p = subprocess.run(["/venv/bin/python", "-m", "pytest", "-q", "-p", "no:cacheprovider", "-p", "harness.suite_plugin",
                            "--timeout=900"], cwd=repo, env=env, stdout=subprocess.PIPE, stderr=subprocess.STDOUT, universal_newlines=True)
        summary = p.stdout.strip().splitlines()[-1] if p.stdout.strip() else ""
        log("suite on the scratch copy (calls recorded): %s" % summary)
        report = {"suite_summary": summary, "suite_exit": p.returncode, "validated": {}}
        bad = 0
        for kind, module in MODULES.items():
            path = os.path.join(d, "trace", kind + ".json")
            traces = json.load(open(path)) if os.path.exists(path) else []
            total = len(traces)
            if tier == "quick" and len(traces) > 400:      # quick: a seeded sample of the recorded calls (they are kb-size)
                import random
                traces = random.Random(seed).sample(traces, 400)
            if not traces:
                report["validated"][kind] = {"events": 0}
                continue
            v = tlc.validate(module, traces)
            fails = {}
            for ti, n, cl in v.fails:
                for c in cl:
                    fails[c] = fails.get(c, 0) + 1
            notes = {}
            for ti, n, cl in v.notes:
                for c in cl:
                    notes[c] = notes.get(c, 0) + 1
            report["validated"][kind] = {"recorded": total, "events": v.events, "failing_clauses": fails, "notes": notes, "wall_s": round(v.wall, 1)}
            log("suite traces -> %s: %d events validated in %.0fs, failing clauses %s, notes %s" % (module, v.events, v.wall, fails or "none", notes or "none"))
            bad += sum(fails.values())
        report["wall_s"] = round(time.time() - t0, 1)
        os.makedirs(EVID, exist_ok=True)
        json.dump(report, open(os.path.join(EVID, "suite.json"), "w"), indent=1)
        print("suite traces: %s" % ("all accepted" if not bad else "%d failing clause occurrences" % bad))
        return 0 if (not bad and "failed" not in summary.replace("xfailed", "")) else 1
    finally:
        shutil.rmtree(d, ignore_errors=True)
