"""Generators of plasmids: modules, vectors, assembly cases, structure instantiations.

Everything is built from the documented canonical decompositions
(docs/source/theory/standard.rst), never from the library's structure patterns:
    module  = site x o5 t o3 y rc(site) b          (o5 = upstream, o3 = downstream overhang)
    vector  = oD y rc(site) p site x oU b          (oD = downstream, oU = upstream overhang)
"""
from . import dna

IUPAC = {"A": "A", "C": "C", "G": "G", "T": "T", "R": "AG", "Y": "CT", "S": "CG", "W": "AT", "K": "GT", "M": "AC",
         "B": "CGT", "D": "AGT", "H": "ACT", "V": "ACG", "N": "ACGT"}


def rnd(n, rng, alphabet="ACGT"):
    return "".join(rng.choice(alphabet) for _ in range(n))


def count_sites(s, site):
    """(forward, reverse) occurrences of the site on the circle s (case-insensitive); a site letter may be an
    ambiguity code standing for its IUPAC set"""
    u = s.upper()
    d = u + u[:len(site) - 1]
    r = dna.rc(site)
    if set(site) - set("ACGT"):
        at = lambda q, i: all(d[i + j] in IUPAC[q[j]] for j in range(len(q)))   # noqa: E731
        return sum(1 for i in range(len(u)) if at(site, i)), sum(1 for i in range(len(u)) if at(r, i))
    f = sum(1 for i in range(len(u)) if d.startswith(site, i))
    v = sum(1 for i in range(len(u)) if d.startswith(r, i))
    return f, v


def safe_alphabet(site):
    """letters that cannot spell the site or its reverse complement on their own"""
    for drop in ("G", "C", "A", "T", "GC", "AT", "GA", "CT", "GT", "CA"):
        alpha = "".join(c for c in "ACGT" if c not in drop)
        if set(site) - set(alpha) and set(dna.rc(site)) - set(alpha):
            return alpha
    return "ACGT"


class Geometry(object):
    def __init__(self, site, off, ovh):
        self.site, self.off, self.ovh = site, off, ovh
        self.rcsite = dna.rc(site)
        self.safe = safe_alphabet(site)

    def fill(self, n, rng, tries):
        return rnd(n, rng, "ACGT" if tries < 8 else self.safe)

    def inst(self, rng):
        """one concrete spelling of the recognition site (the site itself unless it contains ambiguity codes)"""
        return "".join(rng.choice(IUPAC[c]) for c in self.site)

    def module(self, o5, t, o3, b, rng):
        for i in range(40):
            x, y = self.fill(self.off, rng, i), self.fill(self.off, rng, i)
            s = self.inst(rng) + x + o5 + t + o3 + y + dna.rc(self.inst(rng)) + b
            if count_sites(s, self.site) == (1, 1):
                return s
        return None

    def vector(self, oD, oU, p, b, rng):
        for i in range(40):
            x, y = self.fill(self.off, rng, i), self.fill(self.off, rng, i)
            s = oD + y + dna.rc(self.inst(rng)) + p + self.inst(rng) + x + oU + b
            if count_sites(s, self.site) == (1, 1):
                return s
        return None

    def overhangs(self, n, rng, alphabet="ACGT"):
        """n pairwise distinct, non-palindromic, pairwise non-reverse-complementary overhangs"""
        out = []
        guard = 0
        while len(out) < n:
            guard += 1
            if guard > 2000:
                return None
            o = rnd(self.ovh, rng, alphabet)
            if o == dna.rc(o) or o in out or dna.rc(o) in out:
                continue
            out.append(o)
        return out

    def capacity(self):
        """how many admissible overhangs exist at most (pairs o / rc(o), palindromes excluded)"""
        k = self.ovh
        pal = 4 ** (k // 2) if k % 2 == 0 else 0
        return (4 ** k - pal) // 2

    def case(self, rng, nmods, tmin=2, tmax=9, bmin=2, bmax=8, pmax=6, rc_close=False):
        """A complete assembly: vector + nmods chained modules; returns dict or None."""
        if nmods + 1 > self.capacity():
            return None
        for attempt in range(30):
            alpha = "ACGT" if attempt < 10 else self.safe
            ovs = self.overhangs(nmods + 1, rng, alpha)
            if ovs is None:
                return None
            if rc_close:
                # the vector's upstream overhang (where the chain ends) is the reverse complement of a module's
                # upstream overhang: legal - only two MODULE starts may not be reverse complements of each other
                ovs[-1] = dna.rc(ovs[rng.randrange(nmods)])
                if len(set(ovs)) != len(ovs):
                    continue
            bbv = rnd(rng.randint(bmin, bmax), rng, alpha)
            ph = rnd(rng.randint(0, pmax), rng, alpha)
            vs = self.vector(ovs[0], ovs[-1], ph, bbv, rng)
            ts = [rnd(rng.randint(tmin, tmax), rng, alpha) for _ in range(nmods)]
            bs = [rnd(rng.randint(0, bmax), rng, alpha) for _ in range(nmods)]
            ms = [self.module(ovs[i], ts[i], ovs[i + 1], bs[i], rng) for i in range(nmods)]
            if vs is None or any(m is None for m in ms):
                continue
            expected = ovs[-1] + bbv + "".join(ovs[i] + ts[i] for i in range(nmods))
            s, o, k = len(self.site), self.off, self.ovh
            # structural boundaries of each plasmid (site / spacer / overhang / body edges), for origin placement
            vmarks = [0, k, k + o, k + o + s, k + o + s + len(ph), k + o + 2 * s + len(ph), k + 2 * o + 2 * s + len(ph),
                      2 * k + 2 * o + 2 * s + len(ph)]
            mmarks = [[0, s, s + o, s + o + k, s + o + k + len(t), s + o + 2 * k + len(t), s + 2 * o + 2 * k + len(t),
                       2 * s + 2 * o + 2 * k + len(t)] for t in ts]
            return {"vector": vs, "modules": ms, "overhangs": ovs, "targets": ts, "backbone": bbv,
                    "placeholder": ph, "expected": expected, "marks": [vmarks] + mmarks}
        return None


def geometry_of(e):
    from . import enz
    return Geometry(*enz.geometry(e))


def instantiate(struct, rng, runlen=None, lower=0.0):
    """a random member of the language of a structure pattern (letters, groups, X* / X+ runs);
    characters outside the modelled pattern language are skipped"""
    out = []
    i = 0
    # look-around assertions consume nothing: their content is no part of a member of the language
    import re as _re
    struct = _re.sub(r"\(\?(?:<[!=]|[!=])[^()]*\)", "", struct)
    while i < len(struct):
        c = struct[i]
        if c.upper() not in IUPAC:
            i += 1
            continue
        nxt = struct[i + 1] if i + 1 < len(struct) else ""
        if nxt in ("*", "+"):
            k = rng.randint(0, 8) if runlen is None else runlen
            if nxt == "+":
                k = max(k, 1)
            out.append(rnd(k, rng, c.upper() if (c.islower() and c.upper() not in "ACGT") else IUPAC[c.upper()]))
            i += 3 if struct[i + 2:i + 3] == "?" else 2
        else:
            # (a lower-case ambiguity letter of a pattern is literal: only the data letter itself matches)
            out.append(c.upper() if (c.islower() and c.upper() not in "ACGT") else rng.choice(IUPAC[c.upper()]))
            i += 1
    s = "".join(out)
    if lower:
        s = "".join(ch.lower() if rng.random() < lower else ch for ch in s)
    return s


def rotate(s, k):
    k %= len(s)
    return s[-k:] + s[:-k] if k else s


def mutate(s, rng):
    i = rng.randrange(len(s))
    c = rng.choice([x for x in "ACGT" if x != s[i].upper()])
    return s[:i] + c + s[i + 1:]


def boundary_rotations(n, marks, rng, extra=4, width=2):
    """rotations that put the origin within +-width of each marked position, plus random ones"""
    ks = set()
    for m in marks:
        for d in range(-width, width + 1):
            ks.add((n - m + d) % n)     # record >> k moves position m to m + k; origin at m <=> k = n - m
    for _ in range(extra):
        ks.add(rng.randrange(n))
    return sorted(ks)
