"""Driving AbstractVector.assemble and logging Assemble events for spec/Trace_Assembly.tla."""
import copy
import json
import re
import warnings

from . import classes, dna, loader, project
from .typing_drv import guarded


# ------------------------------------------------------------------ building inputs
def mk_record(spec):
    """spec = {id, seq, feats:[{type, strand, parts:[[s,e]..], quals:{}, cites:[int]}], refs:[title], topology?}"""
    loader.load()
    from Bio.Seq import Seq
    from Bio.SeqFeature import CompoundLocation, FeatureLocation, Reference, SeqFeature
    from Bio.SeqRecord import SeqRecord
    from moclo.record import CircularRecord
    feats = []
    for f in spec.get("feats", []):
        st = f.get("strand", 1)
        # a part is [a, b] (strand of the feature) or [a, b, strand] (a join whose parts lie on different strands)
        locs = [FeatureLocation(p_[0], p_[1], strand=(p_[2] if len(p_) > 2 else st)) for p_ in f["parts"]]
        if f.get("fuzzy") and locs[0].end - locs[0].start >= 2:
            # positions that are not exact (GenBank "(3.5)..9", "one-of(3,5)..9", "<3..>9"): their integer value is what counts
            from Bio.SeqFeature import AfterPosition, BeforePosition, BetweenPosition, OneOfPosition, WithinPosition, ExactPosition
            a_, b_ = int(locs[0].start), int(locs[0].end)
            kind = f["fuzzy"]
            if kind == "within":
                st_ = WithinPosition(a_, a_, a_ + 1)
            elif kind == "oneof":
                st_ = OneOfPosition(a_, [ExactPosition(a_), ExactPosition(a_ + 1)])
            elif kind == "between":
                st_ = BetweenPosition(a_, a_, a_ + 1)
            else:
                st_ = BeforePosition(a_)
            en_ = AfterPosition(b_) if kind == "open" else b_
            locs[0] = FeatureLocation(st_, en_, strand=locs[0].strand)
        loc = locs[0] if len(locs) == 1 else CompoundLocation(locs)
        quals = {k: list(v) for k, v in f.get("quals", {}).items()}
        if f.get("cites"):
            quals["citation"] = [(f.get("cite_fmt") or "[%d]") % c for c in f["cites"]]
        feats.append(SeqFeature(loc, type=f.get("type", "misc_feature"), qualifiers=quals))
    ann = {"topology": spec.get("topology", "circular"), "molecule_type": "DNA"}
    ann.update(copy.deepcopy(spec.get("ann", {})))      # free-form annotations a GenBank/EMBL file may carry
    if "refs" in spec:
        refs = []
        for t in spec["refs"]:
            # "title" or "title|journal|start-end|comment": references may differ in any one field only
            fields = (t.split("|") + ["", "", "", "", ""])[:6]     # title|journal|a-b|comment|authors|pubmed
            r = Reference()
            r.title = fields[0]
            r.authors = fields[4] or "A. Author"
            r.pubmed_id = fields[5]
            r.journal = fields[1] or "J. %s" % fields[0]
            if fields[2]:
                a, b = fields[2].split("-")
                r.location = [FeatureLocation(int(a), int(b))]
            r.comment = fields[3]
            refs.append(r)
        ann["references"] = refs
    if spec.get("linear"):
        return SeqRecord(Seq(spec["seq"]), id=spec["id"], name=spec["id"], description="d", features=feats, annotations=ann)
    kw = {}
    if spec.get("letter"):       # per-letter annotations (e.g. the quality values of a sequencing-verified plasmid)
        kw["letter_annotations"] = {"phred_quality": [(7 * i + len(spec["seq"])) % 41 for i in range(len(spec["seq"]))]}
    rec = CircularRecord(Seq(spec["seq"]), id=spec["id"], name=spec["id"], description="d", features=feats, annotations=ann, **kw)
    if spec.get("rot"):          # stored with another origin: moved with the library's own operator
        rec = rec >> spec["rot"]
    return rec


def ref_key(r):
    """identity of a reference for the traces: every field Biopython's Reference.__eq__ looks at"""
    if not hasattr(r, "title"):
        return str(r)
    loc = ",".join("%d-%d" % (int(l.start), int(l.end)) for l in (getattr(r, "location", None) or []))
    return "|".join([r.title or "", r.journal or "", loc, getattr(r, "comment", "") or "", r.authors or "",
                     getattr(r, "pubmed_id", "") or "", getattr(r, "medline_id", "") or "", getattr(r, "consrtm", "") or ""])


_CIT = re.compile(r"^\[(\d+)\]$")


def feat_proj(f, n, refs):
    quals = {k: [str(x) for x in (v if isinstance(v, (list, tuple)) else [v])] for k, v in sorted(f.qualifiers.items()) if k != "citation"}
    raw, cites, bracketed = [], [], True
    for c in f.qualifiers.get("citation", []):
        if isinstance(c, str):
            raw.append(c)
            m = _CIT.match(c)
            if m and 0 < int(m.group(1)) <= len(refs):
                cites.append(ref_key(refs[int(m.group(1)) - 1]))
            else:
                bracketed = False
                cites.append("?" + c)
        else:                       # a Reference object left in place of the index
            raw.append("<%s>" % type(c).__name__)
            cites.append("!" + ref_key(c))
            bracketed = False
    plasmid = (f.qualifiers.get("plasmid") or [""])
    plasmid = plasmid if isinstance(plasmid, str) else plasmid[0]
    label = f.qualifiers.get("label") or [""]
    label = label if isinstance(label, str) else label[0]
    return {"lab": "%s|%s%s" % (f.type, json.dumps(quals, sort_keys=True), project.between_marker(f.location)), "type": f.type,
            "plasmid": str(plasmid), "srclabel": str(label).startswith("source: "), "between": bool(project.between_marker(f.location)),
            "parts": project.runs(project.loc_pairs(f.location, n), n) if n else [], "cites": cites, "raw": raw,
            "bracketed": bracketed}


def rec_proj(rec):
    n = len(rec.seq)
    refs = rec.annotations.get("references", []) or []
    return {"id": rec.id, "seq": dna.enc(rec.seq), "feats": [feat_proj(f, n, refs) for f in rec.features],
            "refs": [ref_key(r) for r in refs]}


def snapshot(rec):
    """deep, order-preserving rendering of everything C07 speaks about (absent references == empty list)"""
    ann = {}
    for k, v in sorted(rec.annotations.items()):
        if k == "references":
            continue
        ann[k] = copy.deepcopy(v) if isinstance(v, (str, int, float, list, dict)) else str(v)
    feats = []
    for f in rec.features:
        q = {}
        for k, v in f.qualifiers.items():
            q[k] = [x if isinstance(x, (str, int, float)) else "<%s:%s>" % (type(x).__name__, ref_key(x)) for x in (v if isinstance(v, (list, tuple)) else [v])]
        feats.append([f.type, str(f.location), f.id, q])
    return json.dumps({"seq": str(rec.seq), "id": rec.id, "name": rec.name, "desc": rec.description, "dbxrefs": list(rec.dbxrefs),
                       "ann": ann, "refs": [ref_key(r) for r in rec.annotations.get("references", []) or []],
                       "feats": feats, "letter": {k: list(v) for k, v in rec.letter_annotations.items()}}, sort_keys=True, default=str)


# ------------------------------------------------------------------ fault injection
KEEP = []      # wrappers of one event stay alive until the event is complete


class Injected(Exception):
    pass


def traced(cls, ctl):
    """subclass of a module/vector class whose public queries count calls and raise at call number ctl['at']"""
    def tick(name):
        ctl["n"] += 1
        ctl["calls"].append(name)
        if ctl["at"] and ctl["n"] == ctl["at"]:
            ctl["fired"] = name
            if ctl["exc"] == "InvalidSequence":
                from moclo import errors
                raise errors.InvalidSequence("injected", details="module became invalid")
            raise {"RuntimeError": Injected, "KeyError": KeyError, "ValueError": ValueError}.get(ctl["exc"], Injected)("injected fault")

    class T(cls):
        def overhang_start(self):
            tick("overhang_start")
            return super(T, self).overhang_start()

        def overhang_end(self):
            tick("overhang_end")
            return super(T, self).overhang_end()

        def target_sequence(self):
            tick("target_sequence")
            return super(T, self).target_sequence()
    T.__name__ = cls.__name__
    return T


# ------------------------------------------------------------------ one call
def call_assemble(vcls, mclss, vrec, mrecs, id_, name, fault=None, prequery=False, wrappers=None, dup_wrapper=None, ambient=None):
    """performs vector.assemble(*modules) on the given record objects; returns the out dict"""
    from moclo import errors
    from moclo.record import CircularRecord
    out = {"kind": "error", "exc": "", "moclo": False, "attr_ovh": [], "dup_ids": [], "seq": [], "id": "", "name": "",
           "topo": "", "comment": [], "circular": False, "feats": [], "refs": [], "unused": [], "unused_o": [], "desc": "", "letters": [],
           "nwarn": 0, "fired": "", "cv": False, "cm": [], "isa": []}
    ctl = {"n": 0, "at": 0, "exc": "", "calls": [], "fired": ""}
    if fault:
        ctl.update(at=fault["at"], exc=fault["exc"])
        vcls = traced(vcls, ctl)
        mclss = [traced(c, ctl) for c in mclss]
    try:
        if wrappers is not None and not fault:      # the very same wrapper objects as in an earlier call of this event
            vec, mods = wrappers
        else:
            vec = vcls(vrec)
            mods = [c(r) for c, r in zip(mclss, mrecs)]
        KEEP.extend([vec] + mods)
        if dup_wrapper is not None and dup_wrapper < len(mods):
            mods = mods + [mods[dup_wrapper]]       # the very same wrapper object supplied twice
        if prequery:          # the user inspects the very wrappers that are assembled afterwards
            for w in [vec] + mods:
                try:
                    w.is_valid(), w.overhang_start(), w.overhang_end(), w.target_sequence()
                except Exception:  # noqa
                    pass
        kw = {}
        if id_ is not None:
            kw["id"] = id_
        if name is not None:
            kw["name"] = name
        if ambient is not None:
            # the caller records warnings in ONE block around several calls, under Python's ordinary "default" action
            # (a warning that the interpreter considers a repetition of an earlier one is then not delivered)
            n0 = len(ambient)
            prod = guarded(lambda: vec.assemble(*mods, **kw), 30)
            ws = ambient[n0:]
        else:
            with warnings.catch_warnings(record=True) as ws:
                warnings.simplefilter("always")
                prod = guarded(lambda: vec.assemble(*mods, **kw), 30)
        unused = []
        for w in ws:
            if isinstance(w.message, errors.UnusedModules):
                out["nwarn"] += 1
                unused.extend(m.record.id for m in w.message.remaining)
        n = len(prod.seq)
        refs = prod.annotations.get("references", []) or []
        out.update(kind="product", seq=dna.enc(prod.seq), id=prod.id, name=prod.name,
                   topo=str(prod.annotations.get("topology", "")), comment=[str(c) for c in prod.annotations.get("comment", [])]
                   if isinstance(prod.annotations.get("comment", []), list) else [str(prod.annotations.get("comment"))],
                   circular=isinstance(prod, CircularRecord), feats=[feat_proj(f, n, refs) for f in prod.features],
                   refs=[ref_key(r) for r in refs], unused=sorted(unused), unused_o=list(unused),
                   desc=str(prod.description), letters=sorted(str(k) for k in prod.letter_annotations))
        joined = "\n".join(out["comment"])
        out["cv"] = vrec.id in joined
        out["cm"] = [m.id in joined for m in mrecs]
        out["_product"] = prod
    except BaseException as ex:  # noqa
        out["exc"] = type(ex).__name__
        out["moclo"] = isinstance(ex, errors.MocloError)
        out["isa"] = [n for n in ("InvalidSequence", "DuplicateModules", "MissingModule") if isinstance(ex, getattr(errors, n))] or [type(ex).__name__]
        if isinstance(ex, errors.MissingModule):
            out["attr_ovh"] = dna.enc(ex.start_overhang) if ex.start_overhang is not None else []
        if isinstance(ex, errors.DuplicateModules):
            out["dup_ids"] = [getattr(getattr(d, "record", None), "id", "?") for d in ex.duplicates]
    out["fired"] = ctl["fired"]
    out["ncalls"] = ctl["n"]
    return out


def transform_spec(spec, by, arg=None):
    """twin of an input record spec: rotated / reverse-complemented / re-cased (features dropped for rc/rot)"""
    s = dict(spec)
    if "plasmid" in spec:
        if by == "rot":
            s["_rotate_api"] = arg
            return s
        raise ValueError("registry plasmids are only rotated")
    seq = spec["seq"]
    n = len(seq)
    if by == "rot":
        k = arg % n
        s["seq"] = seq[-k:] + seq[:-k] if k else seq
        s["feats"] = []
        if spec.get("feats"):
            s["_rotate_api"] = k          # rotate the annotated record with the implementation's own operator
            s["seq"] = seq
            s["feats"] = spec["feats"]
    elif by == "rc":
        if arg == "api":          # record.reverse_complement() with its default arguments (id, name are NOT carried over)
            s["_rc_api"] = True
        else:
            s["seq"] = dna.rc(seq)
            s["feats"] = []
    elif by == "case":
        mask = arg
        s["seq"] = "".join(c.lower() if mask[i % len(mask)] == "1" else c.upper() for i, c in enumerate(seq))
    return s


def build_inputs(r):
    vcls = classes.build(r.get("vcls") or {"generic": "vector", "enz": r["enz"]})
    mclss = [classes.build((r.get("mcls") or [None] * len(r["modules"]))[i] or {"generic": "module", "enz": r["enz"]})
             for i in range(len(r["modules"]))]

    def mk(spec):
        if "plasmid" in spec:          # a plasmid of an embedded registry, with its own annotations
            from . import registries
            rec = copy.deepcopy(registries.item(spec["plasmid"]["reg"], spec["plasmid"]["key"]).entity.record)
            if spec.get("_rotate_api"):
                rec = rec >> spec["_rotate_api"]
            return rec
        rec = mk_record(spec)
        if spec.get("_rotate_api"):
            rec = rec >> spec["_rotate_api"]
        if spec.get("_rc_api"):
            rec = rec.reverse_complement()
        return rec
    return vcls, mclss, mk(r["vector"]), [mk(m) for m in r["modules"]]


def exec_assembly(r):
    """recipe -> [Assemble event] (plus twins executed on fresh copies of the inputs)"""
    loader.load()
    del KEEP[:]
    try:
        vcls, mclss, vrec, mrecs = build_inputs(r)
    except Exception:  # noqa
        # an input could not be stored at another origin with the library's own operator (that operator is judged by C13 and by
        # the twins of C02): the assembly is run on the inputs as specified, without that preliminary step
        r = copy.deepcopy(r)
        for x in [r["vector"]] + r["modules"]:
            x.pop("rot", None)
            x.pop("_rotate_api", None)
            x.pop("_rc_api", None)
        vcls, mclss, vrec, mrecs = build_inputs(r)
    cutter = vcls.cutter
    from . import enz as enzmod
    s, o, k = enzmod.geometry(cutter)
    inputs = [vrec] + mrecs
    try:                       # one wrapper per input for the whole event (warm-up call, logged call, repeated call)
        wr = (vcls(vrec), [c(x) for c, x in zip(mclss, mrecs)])
    except Exception:  # noqa
        wr = None
    amb = None
    amb_cm = None
    if (r.get("warmup") or r.get("repeat")) and not r.get("fault"):
        # several calls in one process: warnings are recorded the way a user's session would see them
        amb_cm = warnings.catch_warnings(record=True)
        amb = amb_cm.__enter__()
        warnings.simplefilter("default")
    try:
        return _exec_assembly_body(r, vcls, mclss, vrec, mrecs, inputs, wr, s, o, k, cutter, amb)
    finally:
        if amb_cm is not None:
            amb_cm.__exit__(None, None, None)


def _exec_assembly_body(r, vcls, mclss, vrec, mrecs, inputs, wr, s, o, k, cutter, amb):
    proj_pre = None
    if r.get("warmup"):        # the logged call is the second one on the same objects
        if not r.get("edit_between"):
            # the event describes the inputs as the user supplied them - before the first call on these objects (whatever a call
            # leaves behind on its inputs must not show in the product of the next one)
            proj_pre = [rec_proj(x) for x in inputs]
        call_assemble(vcls, mclss, vrec, mrecs, r.get("id"), r.get("name"), None, wrappers=wr, ambient=amb)
    if r.get("edit_between"):  # the feature tables of the inputs are edited in place between the two calls
        from Bio.SeqFeature import FeatureLocation as _FL, SeqFeature as _SF
        for rec, extra in zip(inputs, r["edit_between"]):
            if rec.features:
                del rec.features[0]
            for (a, b, st) in extra:
                rec.features.append(_SF(_FL(a, b, strand=st), type="misc_feature", qualifiers={"label": ["added-later"]}))
    before = [snapshot(x) for x in inputs]
    proj_in = proj_pre or [rec_proj(x) for x in inputs]
    out = call_assemble(vcls, mclss, vrec, mrecs, r.get("id"), r.get("name"), r.get("fault"), prequery=bool(r.get("prequery")), wrappers=wr,
                        dup_wrapper=r.get("dup_wrapper"), ambient=amb)
    if r.get("dup_wrapper") is not None and r["dup_wrapper"] < len(mrecs):
        proj_in = proj_in + [proj_in[1 + r["dup_wrapper"]]]      # the event shows the module twice, as it was supplied
    prod = out.pop("_product", None)
    after = [snapshot(x) for x in inputs]
    cit_after = [[f["raw"] for f in rec_proj(x)["feats"]] for x in inputs]
    ev = {"ev": "Assemble", "enz": {"site": dna.enc(s), "off": o, "ovh": k},
          "vrole": classes.role_of(vcls), "generic": ("vcls" not in r and "mcls" not in r) or bool(r.get("assume_generic")),
          "vec": proj_in[0], "mods": proj_in[1:], "args": {"id": "assembly" if r.get("id") is None else r["id"], "name": "assembly" if r.get("name") is None else r["name"]},
          "out": out, "fault": r.get("fault") or {"at": 0, "exc": ""}, "vloose": bool(r.get("vloose")),
          "before": before, "after": after,
          # the citation qualifiers of the inputs as written (C10: "the inputs' own citation indices are unchanged afterwards")
          "cit_before": [[f["raw"] for f in p_["feats"]] for p_ in proj_in[:len(inputs)]], "cit_after": cit_after,
          "rep": {"has": False, "out": {}, "after": []}, "twin": {"by": "none", "out": {}}}
    # C07: the same call again on the very same objects
    if r.get("repeat"):
        out2 = call_assemble(vcls, mclss, vrec, mrecs, r.get("id"), r.get("name"), None, wrappers=wr, ambient=amb)
        out2.pop("_product", None)
        ev["rep"] = {"has": True, "out": out2, "after": [snapshot(x) for x in inputs]}
    tw = r.get("twin")
    if tw:
        r2 = copy.deepcopy(r)
        r2.pop("twin", None)
        r2.pop("fault", None)
        r2.pop("repeat", None)
        by = tw["by"]
        if by in ("rot", "rc", "case"):
            args = tw["args"]            # one per input (vector first)
            r2["vector"] = transform_spec(r["vector"], by, args[0])
            r2["modules"] = [transform_spec(m, by, a) for m, a in zip(r["modules"], args[1:])]
        elif by == "perm":
            order = tw["order"]
            r2["modules"] = [r["modules"][i] for i in order]
            if r.get("mcls"):
                r2["mcls"] = [r["mcls"][i] for i in order]
        elif by == "swap":
            r2["modules"] = list(r["modules"])
            r2["modules"][tw["pos"]] = tw["mod"]
            if r.get("mcls") and r.get("mcls_swap"):
                r2["mcls"] = list(r["mcls"])
                r2["mcls"][tw["pos"]] = r["mcls_swap"]
        try:
            vc2, mc2, vr2, mr2 = build_inputs(r2)
        except BaseException as ex:  # noqa
            # the library's own operator (>> / reverse_complement) refused to transform an input: the twin call cannot even be made
            ev["twin"] = {"by": by, "pos": tw.get("pos", 0) + 1, "mod": {},
                          "out": {"kind": "error", "exc": "InputTransform:" + type(ex).__name__, "moclo": False, "attr_ovh": [], "dup_ids": [], "seq": [],
                                  "unused": [], "unused_o": [], "isa": ["InputTransform:" + type(ex).__name__], "desc": "", "letters": [], "nwarn": 0}}
            evs = [ev]
            if r.get("roundtrip") and prod is not None:
                evs.append(roundtrip_event(prod))
            return evs
        wr2 = None
        if by == "swap" and tw.get("reuse") and wr is not None:
            # "replace one module, keep the rest": the very same vector and module objects (and wrappers) are used again
            p_ = tw["pos"]
            vr2, mr2 = vrec, [m if j != p_ else mr2[p_] for j, m in enumerate(mrecs)]
            try:
                wr2 = (wr[0], [w if j != p_ else mc2[p_](mr2[p_]) for j, w in enumerate(wr[1])])
            except Exception:  # noqa
                wr2 = None
        out2 = call_assemble(vc2, mc2, vr2, mr2, r2.get("id"), r2.get("name"), None, wrappers=wr2)
        out2.pop("_product", None)
        ev["twin"] = {"by": by, "out": out2, "pos": tw.get("pos", 0) + 1,
                      "mod": rec_proj(mr2[tw["pos"]]) if by == "swap" else {}}
    evs = [ev]
    if r.get("roundtrip") and prod is not None:
        evs.append(roundtrip_event(prod))
    return evs


def roundtrip_event(prod):
    """C09: write the product to GenBank and read it back"""
    import io
    from Bio import SeqIO
    from moclo.record import CircularRecord
    n = len(prod.seq)

    def proj(rec):
        return {"seq": dna.enc(str(rec.seq).upper()), "topo": str(rec.annotations.get("topology", "")),
                "feats": sorted([[f.type, json.dumps(project.runs([(s if s else 1, p) for s, p in project.loc_pairs(f.location, n)], n))]
                                 for f in rec.features])}
    ev = {"ev": "RoundTrip", "id": prod.id, "legal": bool(re.match(r"^[A-Za-z0-9_.\-]{1,16}$", prod.id or "")) and bool(re.match(r"^[A-Za-z0-9_.\-]{1,16}$", prod.name or "")),
          "before": proj(prod), "after": {"seq": [], "topo": "", "feats": []}, "exc": ""}
    try:
        buf = io.StringIO()
        with warnings.catch_warnings():
            warnings.simplefilter("ignore")
            SeqIO.write(prod, buf, "genbank")
            buf.seek(0)
            back = SeqIO.read(buf, "genbank")
        ev["after"] = proj(back)
    except BaseException as ex:  # noqa
        ev["exc"] = type(ex).__name__ + ": " + str(ex)[:100]
    return ev
