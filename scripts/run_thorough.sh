#!/bin/sh
# runs the thorough tier of every check into scratch evidence/out directories and prints one line per check
cd /verif
mkdir -p /tmp/th-out /tmp/th-ev
for p in ${@:-C16 C04 C02 C05 C12 C17 C18 C06 C13 C14 C15 C01 C03 C07 C08 C09 C10 C19 C11 C20}; do
  s=$(date +%s)
  VERIF_OUTDIR=/tmp/th-out VERIF_EVIDDIR=/tmp/th-ev timeout 3600 ./check $p --tier thorough > /tmp/th-$p.log 2>&1
  echo "$p rc=$? $(( $(date +%s) - s ))s viol=$(grep -c '^VIOLATION' /tmp/th-$p.log) $(tail -1 /tmp/th-$p.log | cut -c1-230)"
done
