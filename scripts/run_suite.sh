#!/bin/sh
# Run the repository's own test suite on a scratch copy of /repo's working tree (the suite
# re-packs a tracked archive, so it is never run inside /repo).  Prints the pytest summary line.
set -e
SRC=${1:-/repo}
D=$(mktemp -d /tmp/verif-suite-XXXXXX)
trap 'rm -rf "$D"' EXIT
rsync -a --exclude .git "$SRC"/ "$D"/
cd "$D"
env -u MOCLO_VERIF /venv/bin/python -m pytest -q -p no:cacheprovider --timeout=900 -x 2>&1 | tail -3
