#!/bin/sh
# usage: with_patch.sh <patch> [--reverse] -- <command...>
# Applies a patch to /repo's working tree, runs the command in /verif, and always restores /repo.
P=$1; shift
REV=""
if [ "$1" = "--reverse" ]; then REV="-R"; shift; fi
[ "$1" = "--" ] && shift
cd /verif || exit 2
git -C /repo apply $REV "$P" || { echo "patch does not apply"; exit 3; }
"$@"
rc=$?
git -C /repo checkout -- . 
exit $rc
