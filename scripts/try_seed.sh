#!/bin/sh
# usage: try_seed.sh <seed dir with patch.diff + demo.py> <property> [more checks...]
# Confirms a seeded change on a scratch copy of /repo's working tree (never in /repo itself):
#   1 patch applies; 2 demo passes without it; 3 the repository suite passes with it; 4 demo fails with it;
#   5 runs the given checks against the patched copy.  Prints one summary line; removes the copy.
SEED=$1; shift
NAME=$(basename $(dirname "$SEED"))-$(basename "$SEED")
D=$(mktemp -d /tmp/verif-seed-XXXXXX)
trap 'rm -rf "$D"' EXIT
rsync -a --exclude .git /repo/ "$D/repo/"
cd "$D/repo" && git init -q . >/dev/null 2>&1 && git add -A >/dev/null 2>&1 && git -c user.email=x -c user.name=x commit -qm base >/dev/null 2>&1
/venv/bin/python "$SEED/demo.py" "$D/repo" >/dev/null 2>&1; demo0=$?
if ! git apply "$SEED/patch.diff" 2>"$D/apply.err"; then echo "SEED $NAME applies=NO $(head -c 200 $D/apply.err)"; exit 0; fi
suite=$(env -u MOCLO_VERIF /venv/bin/python -m pytest -q -p no:cacheprovider --timeout=900 -x 2>&1 | tail -1)
git checkout -q -- tests 2>/dev/null
/venv/bin/python "$SEED/demo.py" "$D/repo" >"$D/demo1.out" 2>&1; demo1=$?
res=""
for P in "$@"; do
  mkdir -p "$D/out-$P" "$D/ev-$P"
  (cd /verif && VERIF_REPO="$D/repo" VERIF_OUTDIR="$D/out-$P" VERIF_EVIDDIR="$D/ev-$P" ./check $P > "$D/check-$P.log" 2>&1); rc=$?
  nv=$(grep -c '^VIOLATION' "$D/check-$P.log")
  first=$(grep -m1 "^\[$P\] C" "$D/check-$P.log" | cut -c1-260)
  res="$res | $P rc=$rc viol=$nv $first"
  cp "$D/check-$P.log" "/tmp/seed-logs/$NAME-$P.log" 2>/dev/null
done
echo "SEED $NAME applies=yes demo_clean=$demo0 demo_patched=$demo1 suite=[$suite]$res"
