#!/venv/bin/python
"""Fill the SEEDTABLE section of DESIGN.md from seeded/SUMMARY.json (idempotent)."""
import json
import os
import re

HERE = os.path.dirname(os.path.dirname(os.path.abspath(__file__)))
rows = json.load(open(os.path.join(HERE, "seeded", "SUMMARY.json")))
for extra in ("SUMMARY-r2.json", "SUMMARY-r3.json", "SUMMARY-r4.json", "SUMMARY-r5.json", "SUMMARY-r6.json", "SUMMARY-r7.json"):
    if os.path.exists(os.path.join(HERE, "seeded", extra)):
        rows += json.load(open(os.path.join(HERE, "seeded", extra)))
first = {}
for nm in ("ROUND1.json", "ROUND1-r2.json", "ROUND1-r3.json", "ROUND1-r4.json", "ROUND1-r5.json", "ROUND1-r6.json", "ROUND1-r7.json"):
    path1 = os.path.join(HERE, "seeded", nm)
    if os.path.exists(path1):
        first.update({r["id"]: r for r in json.load(open(path1))})
lines = ["| seed | breaks | change (one line) | needs, to manifest | own check, first round | detected by (final) | clause that fires |",
         "|---|---|---|---|---|---|---|"]
for r in rows:
    notes = r.get("needs_to_manifest", "")
    one = re.sub(r"\s+", " ", notes)[:140]
    fr = first.get(r["id"], {})
    f1 = "-" if not fr else ("caught" if fr.get("detected_by") else ("n/a" if not fr.get("confirmed") else "MISSED"))
    clause = ""
    for k, v in r.get("checks", {}).items():
        m = re.search(r"\] (C\d+:[A-Za-z]+)", v.get("first", ""))
        if m:
            clause = m.group(1)
            break
    lines.append("| %s | %s | %s | see `seeded/%s/notes.md` | %s | %s | %s |" % (
        r["id"], r["property"], one.replace("|", "/"), r["id"], f1,
        ", ".join(r["detected_by"] + ["(%s)" % x for x in r.get("also_detected_by_in_cross_run", [])]) if r["confirmed"] else ("not confirmed: " + ("patch does not apply" if not r["applies"] else "demo does not fail with the change on the repaired tree")),
        clause))
table = "\n".join(lines)
p = os.path.join(HERE, "DESIGN.md")
s = open(p).read()
if "SEEDTABLE" in s:
    s = s.replace("SEEDTABLE", "<!-- seedtable:begin -->\n" + table + "\n<!-- seedtable:end -->")
else:
    s = re.sub(r"<!-- seedtable:begin -->.*?<!-- seedtable:end -->", "<!-- seedtable:begin -->\n" + table.replace("\\", "\\\\") + "\n<!-- seedtable:end -->", s, flags=re.S)
open(p, "w").write(s)
print(len(rows), "rows")
