#!/venv/bin/python
"""Regenerate MANIFEST.json from the table below (one entry per claimed property)."""
import json
import os

HERE = os.path.dirname(os.path.dirname(os.path.abspath(__file__)))
BASE = json.load(open("/root/.vp/BASELINE.json"))

# pid -> (technique, level text, level note, design ref)
CLAIMED = {
    "C16": ("TLA+ spec DNARegex.tla: TLC small-scope theorems (MC_DNARegex) + TLC validation of implementation traces (Trace_Regex) recomputing every search",
            "The search semantics (leftmost start, one-turn window, linear never wraps, group text, IUPAC table) is a TLA+ operator; TLC proves the implementation-shaped definition equal to the declarative one on all small patterns/targets, and recomputes every DNARegex.search call of a systematic enumeration driven through the real code, comparing start, end, spans and group texts event by event.",
            "Exhaustive only within the stated bounds; Python re is trusted for the token subset (letters, groups, greedy/lazy runs).", "6/C16"),
}
PENDING = {}

checks = []
for pid in sorted(CLAIMED):
    tech, text, note, ref = CLAIMED[pid]
    checks.append({
        "property_id": pid,
        "quick_cmd": "./check %s --tier quick" % pid,
        "thorough_cmd": "./check %s --tier thorough" % pid,
        "evidence_file": "/verif/evidence/%s.json" % pid,
        "replay_cmd_template": "./check replay {path}",
        "engine": "tlc",
        "level_claimed": {"category": "model_checking", "text": text, "design_ref": "DESIGN.md section " + ref},
        "level_note": note,
        "technique": tech,
    })
props = [json.loads(l)["id"] for l in open(os.path.join(HERE, "properties.jsonl"))]
na = [{"property_id": p, "reason": PENDING.get(p, "check not built yet in this round (planned, see DESIGN.md section 6); nothing is claimed for it")}
      for p in props if p not in CLAIMED]
man = {
    "version": 1,
    "setup_cmd": "./check setup",
    "hooks": {"guard": "MOCLO_VERIF", "enable": "MOCLO_VERIF=1 (no source hook exists: all observation is done from outside through the public API and instrumented subclasses)",
              "baseline_off_cmd": BASE["cmd"].replace("<file>", "/tmp/verif-baseline.junit.xml"),
              "source_commits": [], "add_only": True},
    "engines": [{"name": "tlc", "path": "/opt/veriftools/tla/tla2tools.jar", "serves_properties": sorted(CLAIMED),
                 "kind_free_text": "TLC 1.8 explicit-state model checker; used for model checking the TLA+ specification in spec/ and for validating ndjson traces of the implementation against it"}],
    "checks": checks,
    "notes": "Model-based verification with an explicit TLA+ specification (spec/*.tla). Every check = TLC on MC_* configurations + traces of the real code validated by TLC (Trace_*.tla) and/or TLC-generated behaviours replayed into the real code. See DESIGN.md.",
    "not_applicable": na,
}
json.dump(man, open(os.path.join(HERE, "MANIFEST.json"), "w"), indent=1)
print("claimed:", sorted(CLAIMED), "pending:", [x["property_id"] for x in na])
