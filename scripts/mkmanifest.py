#!/venv/bin/python
"""Regenerate MANIFEST.json from the table below (one entry per claimed property)."""
import json
import os

HERE = os.path.dirname(os.path.dirname(os.path.abspath(__file__)))
BASE = json.load(open("/root/.vp/BASELINE.json"))

# pid -> (technique, level text, level note, design ref)
CLAIMED = {
    "C11": ("TLA+ MC_Levels.tla (TLC ProductIsNextModule on a two-enzyme small world) + Trace_Assembly.tla NextLevel clauses validated by TLC on the eight kit triples",
            "The closed-form product of a kit-shaped vector is decomposed by the next-level enzyme in the specification (all rotations, TLC); for the eight (vector, module, next-level) triples of the kits real assemblies are run, the product typed by the next-level class at random rotations, assembled again at the next level, and two-level chains built; TLC decomposes each product from sites and cuts and checks acceptance, fragments and that the target contains the inserts.",
            "'The whole insert' of a module that itself embeds the next-level sites (YTKProduct) is read as the stretch between those cuts (DESIGN 5).", "6/C11"),
    "C20": ("TLA+ Registry.tla: TLC over all addition histories of a combined registry (nested, repeated and live growing members, observations in between) + every history replayed on a real CombinedRegistry + TLC validation of complete observations of real registries",
            "Union/first-wins/keys-once are invariants of the specification's Add machine (TLC, incl. nested and repeated members); each enumerated history is executed on a real CombinedRegistry; the five embedded registries (362 items, exhaustive), their combinations and generated directories are observed completely and judged by the trace specification.",
            "GenBank parsing / resistance inference are exercised, not modelled.", "6/C20"),

    "C01": ("TLA+ AssemblyDNA.tla/Restriction.tla: TLC ImplProduct = Formula on all rotations/orders of small worlds + TLC validation of assembly traces against the closed form computed from sites and cuts",
            "The documented closed form of the product is a TLA+ operator over the canonic decompositions; TLC proves the implementation-shaped computation equal to it on every rotation and argument order of small worlds and recomputes it for every real assembly (26 real + 5 synthetic geometries, chains 1-5, random rotations, shuffled arguments), comparing as circles.",
            "Oracle uses neither the structure regex nor elucidate(); sampled inputs beyond the small worlds.", "6/C01"),
    "C03": ("TLA+ Assembly.tla: TLC step machine = Expected over all overhang graphs (+ negative model for palindromic overhangs) + replay of final states into real code + TLC validation of the executions at DNA level",
            "The assembly is an explicit step machine compared by TLC with the declarative outcome on every vector pair and module sequence over an alphabet with reverse-complementary and palindromic overhangs; final states are concretised to DNA and executed (outcome, stall overhang, unused set compared) and every execution is re-judged by the DNA-level trace specification; argument-order twins.",
            "Module sequences bounded at 3 over 5 (quick) / 7 (thorough) symbols; a palindromic start overhang is not a duplicate (DESIGN 5, defect D9 repaired).", "6/C03"),
    "C07": ("TLA+ Assembly.tla: TLC InputsRestored with a fault at every step + negative model + TLC validation of traces with exceptions injected at every call into instrumented inputs",
            "Crash points are actions of the specification (Fault at every step); the negative model without restore is refuted; in the real code an exception is injected at every call the assembly makes into the supplied objects, and deep snapshots of every input before/after plus repeated calls are compared by the trace specification.",
            "Crash points = calls into user-supplied objects (overhang_start/overhang_end/target_sequence).", "6/C07"),
    "C08": ("TLA+ Trace_Assembly.tla fragment map (from Restriction cuts) + CircularRecord.tla: TLC validation of annotated assemblies by denotation",
            "TLC derives from sites and cuts where every nucleotide of every input ends up, maps each input feature lying inside its retained fragment and requires the product's non-generated features to be exactly that bag (type, qualifiers, strand, nucleotides).", "Random feature tables; periodic products try every aligning offset.", "6/C08"),
    "C09": ("TLA+ Trace_Assembly.tla: provenance clauses (MetaRequested, SourcesTile, SourcesVerbatim) + GenBank round-trip identity, validated by TLC on real products",
            "Generated source features are identified and required to tile the product and to cover text occurring verbatim in the named plasmid; id/name/topology/comment; round trip through Bio.SeqIO judged as identity on sequence, topology, feature types and denotations.", "GenBank I/O itself is Biopython's (trusted).", "6/C09"),
    "C10": ("TLA+ Trace_Assembly.tla: RefsOnceAndSameTarget through the fragment map + Assembly.tla de-/re-reference steps (TLC)",
            "Citations are resolved to the references they denote on inputs and product; TLC maps cited features through the fragment map and requires same targets, [n] form, each cited reference once, and that cited inputs assemble like uncited ones.", "Reference lists of any kind: equal entries, entries differing in one field, ten and more entries, citations in any order.", "6/C10"),
    "C19": ("TLA+ Assembly.tla Interchange (TLC) + TLC validation of swap twins against the closed form with one segment exchanged",
            "At the graph level every chain position is determined by overhangs only (TLC); for real assemblies every chain position is replaced by a fresh module with the same overhangs and TLC requires the new product to be the closed form with only that segment exchanged.", "Generated replacements; registry replacements in thorough tier.", "6/C19"),

    "C13": ("TLA+ CircularRecord.tla: TLC over all rotation/reverse-complement sequences on small records + every transition replayed into real CircularRecords + TLC validation of operation chains",
            "The record algebra is a TLA+ state machine with ghost nucleotide identities; TLC checks that the record is always the image of the original under the composed group element and that features and per-letter tracks follow their nucleotides, every enumerated transition is executed on a real CircularRecord (two coordinate representations) and compared, and random operation chains on real records are validated step by step and against the composed element.",
            "Record lengths 4-6 exhaustive in the model, 4-40 random in traces.", "6/C13"),
    "C14": ("TLA+ CircularRecord.tla: RevComp action in the same state machine (TLC) + replayed transitions + TLC validation of chains mixing rotations and reverse complements",
            "Involution, commutation with rotation and constant spelling are invariants checked by TLC; RevComp transitions are replayed into real records, including pre-states with past-the-end coordinates produced by rotations; chains are validated by denotation.", "Feature table order and compound/simple representation are treated as representation.", "6/C14"),
    "C15": ("TLA+ CircularRecord.tla operators (OccursCirc, Python plain and extended slices; MC_Slices theorems) + TLC validation of membership/slice/add/wrap traces exhaustive on small records",
            "Circular membership, linear slices, refusal of + and wrapping are spec operators; TLC recomputes each logged answer: membership for every query length 0..n+2 at every origin and every rotation of small records, every slice bound pair, every operand type on both sides of +, wrapping linear records, aliasing probes.", "Exhaustive on records of length 3-5, random beyond.", "6/C15"),

    "C02": ("TLA+ Structure.tla: TLC RotInv on all rotations of small worlds + TLC validation of (record, record >> k) typing traces",
            "Rotation invariance of typing is an invariant of the specification checked by TLC on every plasmid and every rotation of constructed small worlds; the real classes (generic over 26 real + 5 synthetic geometries, user parts, 85 kit classes, registry plasmids) are queried on record and record >> k through the public API and TLC judges each pair, evaluating the unique-match precondition itself.",
            "Small-scope + sampled rotations (boundary-directed); assembly half uses the assembly traces.", "6/C02"),
    "C04": ("TLA+ Restriction.tla/Structure.tla: TLC DigestAgreement on small worlds + TLC validation of typing traces against cuts computed from (site, off, ovh)",
            "TLC recomputes, for every accepted record, the enzyme's cut positions from the declared geometry by plain site search and checks that the reported overhangs/target/placeholder are exactly those restriction fragments; the same theorem is model-checked on small worlds including the docs' canonic decomposition.",
            "Oracle independent of the structure patterns; sampled inputs beyond the small worlds.", "6/C04"),
    "C05": ("TLA+ Structure.tla: TLC PartIffGenericAndSignature on small worlds + TLC validation of part/generic typing and characterize traces",
            "The iff between a signature-typed part and (generic class accepts and IUPAC signature matches) is model-checked on small worlds and evaluated by TLC on every logged query of the 59 signature-typed kit classes and random user signatures; characterize is judged against the candidates' Typing.",
            "Precondition (two sites, unique generic match) evaluated by the spec.", "6/C05"),
    "C06": ("TLA+ Session.tla (class-level pattern cache) and Wrappers.tla (memoised matches of wrapper objects over mutable records): TLC over all histories + negative models + every history replayed into real classes / wrappers + TLC validation of kit-class histories",
            "The pattern cache is a state variable of the specification; TLC enumerates every history up to the bound, the negative model (inherited lookup) is refuted, each enumerated history is replayed on a freshly built real class tree, and histories over the 85 kit classes run in forked pristine children are validated event by event (answer vs fresh process vs Typing of the class's own structure, cache slots).",
            "Histories bounded (3/4 validation calls, 5/6 wrapper steps exhaustive; longer ones random); what a wrapper answers after its record was edited in place is left unspecified (DESIGN 11.6).", "6/C06"),
    "C12": ("TLA+ Structure.tla: TLC StrandSym on small worlds + TLC validation of (record, reverse complement) typing traces",
            "Strand symmetry is an invariant checked by TLC on the small worlds and on every (record, reverse complement) pair driven through the real generic classes over all geometries.",
            "Precondition (exactly two sites) evaluated by the spec; assembly half uses the assembly traces.", "6/C12"),
    "C17": ("TLA+ Structure.tla: TLC totality on all words up to a bound + TLC validation of fuzzed typing traces",
            "Typing is a total operator (TLC evaluates it on every word up to length 8/10 and on the small worlds); every kit class and generic class is fuzzed with IUPAC strings, corrupted and truncated instances and TLC checks Boolean verdicts and InvalidSequence on every query of invalid records.",
            "Fuzzing is sampled; assembly half uses the assembly traces.", "6/C17"),
    "C18": ("TLA+ Structure.tla: TLC CaseInv on small worlds + TLC validation of (record, re-cased record) typing traces",
            "Case invariance is an invariant of the specification and is evaluated by TLC on every (record, re-cased twin) pair driven through the real classes.",
            "Sampled case masks; assembly half uses the assembly traces.", "6/C18"),

    "C16": ("TLA+ spec DNARegex.tla: TLC small-scope theorems (MC_DNARegex) + TLC validation of implementation traces (Trace_Regex) recomputing every search",
            "The search semantics (leftmost start, one-turn window, linear never wraps, group text, IUPAC table) is a TLA+ operator; TLC proves the implementation-shaped definition equal to the declarative one on all small patterns/targets, and recomputes every DNARegex.search call of a systematic enumeration driven through the real code, comparing start, end, spans and group texts event by event.",
            "Exhaustive only within the stated bounds; Python re is trusted for the token subset (letters, groups, greedy/lazy runs).", "6/C16"),
}
PENDING = {}

checks = []
for pid in sorted(CLAIMED):
    tech, text, note, ref = CLAIMED[pid]
    checks.append({
        "property_id": pid,
        "quick_cmd": "./check %s --tier quick" % pid,
        "thorough_cmd": "./check %s --tier thorough" % pid,
        "evidence_file": "/verif/evidence/%s.json" % pid,
        "replay_cmd_template": "./check replay {path}",
        "engine": "tlc",
        "level_claimed": {"category": "model_checking", "text": text, "design_ref": "DESIGN.md section " + ref},
        "level_note": note,
        "technique": tech,
    })
props = [json.loads(l)["id"] for l in open(os.path.join(HERE, "properties.jsonl"))]
na = [{"property_id": p, "reason": PENDING.get(p, "check not built yet in this round (planned, see DESIGN.md section 6); nothing is claimed for it")}
      for p in props if p not in CLAIMED]
man = {
    "version": 1,
    "setup_cmd": "./check setup",
    "hooks": {"guard": "MOCLO_VERIF", "enable": "MOCLO_VERIF=1 (no source hook exists: all observation is done from outside through the public API and instrumented subclasses)",
              "baseline_off_cmd": BASE["cmd"].replace("<file>", "/tmp/verif-baseline.junit.xml"),
              "source_commits": [], "add_only": True},
    "engines": [{"name": "tlc", "path": "/opt/veriftools/tla/tla2tools.jar", "serves_properties": sorted(CLAIMED),
                 "kind_free_text": "TLC 1.8 explicit-state model checker; used for model checking the TLA+ specification in spec/ and for validating ndjson traces of the implementation against it"}],
    "checks": checks,
    "notes": "Model-based verification with an explicit TLA+ specification (spec/*.tla, 33 modules). Every check = TLC on MC_* configurations (+ negative models that must be refuted) + traces of the real code validated by TLC (Trace_*.tla, total verdicts) and/or TLC-enumerated behaviours replayed into the real code. ./check selftest demonstrates the binding (corrupted trace fields are rejected with the expected clause). 14 genuine defects were found and repaired by 'fix:' commits in /repo (KNOWN_FINDINGS.json, all status=fixed). seeded/ holds 215 confirmed seeded changes from seven rounds of independent sub-agents plus the reverts of the repairs; all 215 and all reverts are detected by the quick tier of the owning check (scripts/try_seed.sh); first-pass misses and what was strengthened for each are in DESIGN.md 11.5. See DESIGN.md section 11.",
    "not_applicable": na,
}
json.dump(man, open(os.path.join(HERE, "MANIFEST.json"), "w"), indent=1)
print("claimed:", sorted(CLAIMED), "pending:", [x["property_id"] for x in na])
