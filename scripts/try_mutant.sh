#!/bin/sh
# usage: try_mutant.sh <name> <file relative to repo> <sed expression> <checks...>
# Applies a one-line mutation to a scratch copy of /repo, runs the repository suite and the given checks against the copy.
NAME=$1; FILE=$2; EXPR=$3; shift 3
D=$(mktemp -d /tmp/verif-mut-XXXXXX)
trap 'rm -rf "$D"' EXIT
rsync -a --exclude .git /repo/ "$D/repo/"
cd "$D/repo"
cp "$FILE" "$D/orig"
sed -i "$EXPR" "$FILE"
if cmp -s "$FILE" "$D/orig"; then echo "MUTANT $NAME: sed did not change anything"; exit 0; fi
suite=$(env -u MOCLO_VERIF /venv/bin/python -m pytest -q -p no:cacheprovider --timeout=900 -x 2>&1 | tail -1 | cut -c1-60)
res=""
for P in "$@"; do
  mkdir -p "$D/out-$P" "$D/ev-$P"
  (cd /verif && VERIF_REPO="$D/repo" VERIF_OUTDIR="$D/out-$P" VERIF_EVIDDIR="$D/ev-$P" timeout 900 ./check $P > "$D/check-$P.log" 2>&1); rc=$?
  first=$(grep -m1 "^\[$P\] C[0-9]*:[A-Za-z]*" "$D/check-$P.log" | sed -E 's/^\[C[0-9]+\] (C[0-9]+:[A-Za-z]+).*/\1/')
  res="$res | $P rc=$rc $first"
done
echo "MUTANT $NAME suite=[$suite]$res"
