#!/venv/bin/python
"""Populate /verif/seeded/<id>/ from confirmed seeded changes.
usage: record_seeds.py <results file of scripts/try_seed.sh> <seed-out root>"""
import json
import os
import re
import shutil
import sys

res, root = sys.argv[1], sys.argv[2]
PREFIX = sys.argv[3] if len(sys.argv) > 3 else ""          # e.g. "r2-" for the second round of sub-agents
HERE = os.path.dirname(os.path.dirname(os.path.abspath(__file__)))
rows = []
for line in open(res):
    m = re.match(r"SEED (C\d+)-([ab]) applies=(\S+)(.*)", line)
    if not m:
        continue
    prop, x, applies, rest = m.groups()
    sid = "%s%s-%s" % (PREFIX, prop, x)
    src = os.path.join(root, prop, x)
    d = {"id": sid, "property": prop, "applies": applies == "yes"}
    mm = re.search(r"demo_clean=(\d+) demo_patched=(\d+) suite=\[(.*?)\]", rest)
    if mm:
        d["demo_exit_without_change"] = int(mm.group(1))
        d["demo_exit_with_change"] = int(mm.group(2))
        d["suite_with_change"] = mm.group(3)
    checks = {}
    for c in re.finditer(r"\| (C\d+) rc=(\d+) viol=(\d+) ?(.*?)(?= \| C\d+ rc=|$)", rest):
        checks[c.group(1)] = {"exit": int(c.group(2)), "violation_lines": int(c.group(3)), "first": c.group(4).strip()[:240]}
    d["checks"] = checks
    d["confirmed"] = bool(d["applies"] and d.get("demo_exit_without_change") == 0 and d.get("demo_exit_with_change") == 1
                          and "passed" in d.get("suite_with_change", "") and " failed" not in d.get("suite_with_change", "") and " error" not in d.get("suite_with_change", ""))
    d["detected_by"] = sorted(k for k, v in checks.items() if v["exit"] == 1 and v["violation_lines"] > 0)
    notes = ""
    if os.path.exists(os.path.join(src, "notes.md")):
        notes = open(os.path.join(src, "notes.md")).read()
    d["needs_to_manifest"] = notes.strip()[:1500]
    d["what_was_run"] = ("scripts/try_seed.sh %s %s  (scratch copy of /repo's working tree; git apply patch.diff; repository suite; "
                         "demo.py before/after; ./check <property> with VERIF_REPO pointing at the patched copy)" % (src, " ".join(checks) or prop))
    rows.append(d)
    if d["confirmed"]:
        dst = os.path.join(HERE, "seeded", sid)
        os.makedirs(dst, exist_ok=True)
        for f in ("patch.diff", "demo.py", "notes.md"):
            if os.path.exists(os.path.join(src, f)):
                shutil.copy(os.path.join(src, f), os.path.join(dst, f))
        json.dump(d, open(os.path.join(dst, "meta.json"), "w"), indent=1)
last = {}
for d in rows:
    last[d["id"]] = d          # a seed that was re-run (e.g. after porting its patch) counts with its latest result
rows = [last[k] for k in sorted(last)]
json.dump(rows, open(os.path.join(HERE, "seeded", "SUMMARY%s.json" % ("-" + PREFIX.strip("-") if PREFIX else "")), "w"), indent=1)
for d in rows:
    print("%-6s confirmed=%-5s detected_by=%s" % (d["id"], d["confirmed"], d["detected_by"]))
